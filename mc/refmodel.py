"""Reference model written from the property statements: plain dictionaries keyed by unit id.

No pandas, no joins, no positional alignment.
"""
from fractions import Fraction

from .election import is_district_office

EXPECTED = "expected"
UNEXPECTED = "unexpected"
BLOCK = "non-modeled: blocklisted"
ZERO = "non-modeled: zero baseline"
STRANGE = "non-modeled: strange turnout factor"


def uses_margin(cfg):
    return "margin" in cfg["estimands"]


def baseline_weight(u, cfg):
    return (u["b_dem"] + u["b_gop"]) if uses_margin(cfg) else u["b_turnout"]


def result_weight(u, cfg):
    return (u["r_dem"] + u["r_gop"]) if uses_margin(cfg) else u["r_turnout"]


def result_value(u, estimand):
    if estimand == "margin":
        return u["r_dem"] - u["r_gop"]
    return u[f"r_{estimand}"]


def limits(cfg):
    mp = cfg.get("model_parameters", {})
    return mp.get("turnout_factor_lower", 0.5), mp.get("turnout_factor_upper", 2.0)


def blocklists(units, cfg):
    mp = cfg.get("model_parameters", {})
    ub = set(mp.get("unit_blocklist", [])) | {u["id"] for u in units if u.get("status", "").startswith("unit_blocklisted")}
    sb = set(mp.get("postal_code_blocklist", [])) | {u["postal"] for u in units if u.get("status") == "state_blocklisted"}
    return ub, sb


def effective(u, cfg):
    """The unit as the model sees it: (present, in_baseline, results-dict, pev).  Missing baseline units
    are dropped (policy 'drop') or become 0 votes at 0 percent (policy 'zero')."""
    in_base = u["in_baseline"] and u["postal"] in cfg["states"]
    needed = set()
    for e in cfg["estimands"]:
        needed |= {"dem", "gop"} if e == "margin" else {e}
    if u["in_feed"] and not u.get("r_nan") and needed & set(u.get("nan_cols", ())):
        # half-delivered row: some requested count is missing.  Under 'drop' the unit leaves the baseline join and is passed
        # through as unexpected with the counts it does have (the missing ones count 0); under 'zero' the missing counts
        # are 0 and the unit stands at 0 percent
        z = dict(u)
        for c in u["nan_cols"]:
            z[f"r_{c}"] = 0
        if in_base and cfg["policy"] == "zero":
            z["pev"] = 0.0
            return True, True, z, 0.0
        return True, False, z, u["pev"]
    if u["in_feed"] and u.get("r_nan"):
        # a feed row without results: under 'drop' the baseline join loses the unit, so it is in the feed but not in the
        # (dropped) join = unexpected; under 'zero' it counts as 0 votes at 0 percent
        z = dict(u)
        z.update(r_dem=0, r_gop=0, r_turnout=0)
        if in_base and cfg["policy"] == "zero":
            z["pev"] = 0.0
            return True, True, z, 0.0
        return True, False, z, u["pev"]
    if u["in_feed"]:
        return True, in_base, u, u["pev"]
    if in_base and cfg["policy"] == "zero":
        z = dict(u)
        z.update(r_dem=0, r_gop=0, r_turnout=0, pev=0.0)
        return True, True, z, 0.0
    return False, in_base, u, 0.0


OUTLIER_CATEGORIES = ("non-modeled: strange turnout factor modeled", "non-modeled: strange margin change modeled")


def categorize(units, cfg, outlier_flagged=None):
    """id -> dict(category, reporting (0/1 as shown in the unit table), kind in
    {'fit','predict','passthrough'}, eff=<effective unit>) for every unit that must appear.

    outlier_flagged: {id: outlier category} as decided by an enabled outlier model (the reference does not
    re-implement the outlier regression); it only applies to units that would otherwise be fitting units."""
    ub, sb = blocklists(units, cfg)
    lo, hi = limits(cfg)
    thr = cfg["threshold"]
    out = {}
    for u in units:
        present, in_base, eff, pev = effective(u, cfg)
        if not present:
            continue
        if not in_base:
            out[u["id"]] = dict(category=UNEXPECTED, reporting=0, kind="passthrough", eff=eff)
            continue
        bw = baseline_weight(eff, cfg)
        if u["id"] in ub or u["postal"] in sb:
            out[u["id"]] = dict(category=BLOCK, reporting=0, kind="passthrough", eff=eff)
        elif bw == 0:
            out[u["id"]] = dict(category=ZERO, reporting=0, kind="passthrough", eff=eff)
        elif pev >= thr:
            tf = Fraction(result_weight(eff, cfg), bw)
            if tf <= Fraction(lo).limit_denominator(10**6) or tf >= Fraction(hi).limit_denominator(10**6):
                out[u["id"]] = dict(category=STRANGE, reporting=0, kind="passthrough", eff=eff)
            elif outlier_flagged and u["id"] in outlier_flagged:
                out[u["id"]] = dict(category=outlier_flagged[u["id"]], reporting=0, kind="passthrough", eff=eff)
            else:
                out[u["id"]] = dict(category=EXPECTED, reporting=1, kind="fit", eff=eff)
        else:
            out[u["id"]] = dict(category=EXPECTED, reporting=0, kind="predict", eff=eff)
    return out


# ----------------------------------------------------------------------------------------------
# attribution of units to aggregate groups

LEVEL_TABLE = {
    "postal_code": "state_data",
    "county_fips": "county_data",
    "district": "district_data",
    "county_classification": "classification_data",
}
AGG_ORDER = ["postal_code", "district", "county_classification", "county_fips"]


def key_columns(level, office):
    base = ["postal_code"] + (["district"] if is_district_office(office) else [])
    return sorted(set(base + [level]), key=AGG_ORDER.index)


def unit_key(u, cat, col, cfg):
    """Value of key column `col` for unit u, or None if the unit cannot be attributed at that column.

    Baseline units (modelled or not) carry their baseline keys.  Unexpected units carry the state
    from the feed, and county / district parsed from their id (the documented recovery mechanism);
    they have no classification."""
    if col == "postal_code":
        return u["postal"]
    if cat["category"] != UNEXPECTED:
        return {"county_fips": u["county"], "district": u["district"], "county_classification": u["cls"]}[col]
    if col == "county_classification":
        return None
    parts = u["id"].split("_")
    district = is_district_office(cfg["office"])
    if col == "district":
        return parts[0] if district else None
    if col == "county_fips":
        if "district" in cfg["unit_type"]:
            return parts[1] if len(parts) > 1 else None
        return parts[0]
    raise KeyError(col)


def groups(units, cfg, cats, level):
    """group key tuple -> dict(results={estimand: int}, reporting=int, fit=[ids], predict=[ids],
    passthrough=[ids]) for one requested level, per the statement of C01."""
    cols = key_columns(level, cfg["office"])
    byid = {u["id"]: u for u in units}
    out = {}
    classification = "county_classification" in cols
    for uid, cat in cats.items():
        u = byid[uid]
        if classification and cat["kind"] == "passthrough":
            continue  # classification tables hold modelled units only (pinned by the test-suite)
        key = tuple(unit_key(u, cat, c, cfg) for c in cols)
        if any(k is None for k in key):
            continue
        g = out.setdefault(key, dict(results={e: 0 for e in cfg["estimands"]}, reporting=0, fit=[], predict=[], passthrough=[], weights=0))
        for e in cfg["estimands"]:
            g["results"][e] += result_value(cat["eff"], e)
        g["weights"] += result_weight(cat["eff"], cfg)
        g["reporting"] += cat["reporting"]
        g[cat["kind"]].append(uid)
    return cols, out


def half_tolerant_round_ok(x: Fraction, observed) -> bool:
    """observed == round(x), accepting either neighbour when x is within 1e-6 of a half-integer."""
    import math

    f = math.floor(x)
    frac = x - f
    if abs(frac - Fraction(1, 2)) < Fraction(1, 10**6):
        return observed in (f, f + 1)
    return observed == (f if frac < Fraction(1, 2) else f + 1)
