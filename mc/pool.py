"""Long-lived worker pool.  Workers import the code under test once; the parent never does."""
import importlib
import multiprocessing as mp
import os
import sys
import traceback

from . import env as _env

_MOD = None


def _init(check_module, extra_env):
    global _MOD
    _env.apply_env(extra_env)
    _env.import_elexmodel()
    from . import fakes

    fakes.install_fake_boto3()  # object-store seam: nothing ever talks to a real service
    _MOD = importlib.import_module(check_module)
    if hasattr(_MOD, "worker_init"):
        _MOD.worker_init()


def _run(task):
    idx, case = task
    try:
        res = _MOD.evaluate(case)
    except BaseException as e:  # harness error: the check itself blew up
        res = {
            "harness_error": f"{type(e).__name__}: {e}",
            "traceback": traceback.format_exc(limit=12),
        }
    return idx, res


class Pool:
    """Deterministic ordered map of `evaluate` over cases, on `n` forked long-lived workers."""

    def __init__(self, check_module, n=None, extra_env=None):
        if "elexmodel" in sys.modules:
            raise RuntimeError("parent process must not import elexmodel")
        self.n = n or int(os.environ.get("VERIF_PROCS", "16"))
        ctx = mp.get_context("fork")
        self.pool = ctx.Pool(self.n, initializer=_init, initargs=(check_module, extra_env))

    def map(self, cases, chunksize=None):
        cases = list(cases)
        if not cases:
            return []
        if chunksize is None:
            chunksize = max(1, min(64, len(cases) // (self.n * 6)))
        out = [None] * len(cases)
        for idx, res in self.pool.imap_unordered(_run, list(enumerate(cases)), chunksize=chunksize):
            out[idx] = res
        return out

    def close(self):
        self.pool.close()
        self.pool.join()

    def __enter__(self):
        return self

    def __exit__(self, *a):
        try:
            self.pool.terminate()
        finally:
            self.pool.join()


def run_fresh(check_module, cases, extra_env=None):
    """Evaluate cases in one brand-new worker process (used to confirm violations and for the
    determinism self-check)."""
    ctx = mp.get_context("fork")
    with ctx.Pool(1, initializer=_init, initargs=(check_module, extra_env)) as p:
        res = p.map(_run, list(enumerate(cases)), chunksize=1)
    return [r for _, r in sorted(res, key=lambda t: t[0])]
