"""Bounded exhaustive exploration (model checking) harness for elex-live-model.

Run with /venv/bin/python from /verif:  python -m mc check C01 --tier quick
The parent process never imports elexmodel; only pool workers do (see mc.pool).
"""
