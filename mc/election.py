"""Synthetic elections: a scenario is a list of plain unit dicts plus a run configuration.

Nothing here imports elexmodel at module level; `run_estimates` does (inside a worker).
"""
import copy
import math
import random

ELECTION_ID = "2099-11-03_USA_G"
FEATURE = "x1"

# ----------------------------------------------------------------------------------------------
# units


def unit_id(office, county, k, district=None):
    if office in ("H", "Y", "Z"):
        return f"{district}_{county}_{k}"
    return f"{county}_{k}"


def make_unit(
    uid,
    postal,
    county,
    cls,
    district=None,
    b=(100, 80, 200),
    r=(0, 0, 0),
    pev=0.0,
    x1=0.0,
    in_baseline=True,
    in_feed=True,
    role="bg",
):
    return {
        "id": uid,
        "postal": postal,
        "county": county,
        "cls": cls,
        "district": district,
        "b_dem": int(b[0]),
        "b_gop": int(b[1]),
        "b_turnout": int(b[2]),
        "r_dem": int(r[0]),
        "r_gop": int(r[1]),
        "r_turnout": int(r[2]),
        "pev": float(pev),
        "x1": float(x1),
        "in_baseline": bool(in_baseline),
        "in_feed": bool(in_feed),
        "role": role,
    }


def plausible_result(rng, b):
    """A current result consistent with baseline b=(dem,gop,turnout): turnout factor in [0.8,1.3]."""
    bd, bg, bt = b
    tf = rng.choice([0.8, 0.9, 1.0, 1.1, 1.2, 1.3]) + rng.randint(-3, 3) / 100.0
    swing = rng.randint(-8, 8) / 100.0
    two = max(2, int(round((bd + bg) * tf)))
    share = min(0.95, max(0.05, bd / max(1, bd + bg) + swing))
    rd = int(round(two * share))
    rg = two - rd
    other = int(round((bt - bd - bg) * tf)) + rng.randint(0, 3)
    return (rd, rg, rd + rg + max(0, other))


def random_baseline(rng):
    bt = rng.randint(300, 3000)
    other = rng.randint(5, 40)
    two = bt - other
    share = rng.randint(25, 75) / 100.0
    bd = int(round(two * share))
    return (bd, two - bd, bt)


# Background layouts.  Each entry: (postal, county, cls, district)
def background(seed, office="G", n=12, layout="AA2", partial=0):
    """n fully reporting units spread round-robin over the cells of `layout`.

    layout "AA2": state AA, counties AAc0/AAc1, classes r/u.
    layout "AABB": additionally state BB (counties BBc0), so that two contests exist.
    For district offices districts "1","10","2" are crossed with the counties.
    `partial` background units (the last ones) are nonreporting at 0%.
    """
    rng = random.Random(1000003 * seed + 17)
    if layout == "AA2":
        cells = [("AA", "AAc0", "r"), ("AA", "AAc1", "u"), ("AA", "AAc0", "u"), ("AA", "AAc1", "r")]
    elif layout == "AABB":
        cells = [
            ("AA", "AAc0", "r"),
            ("BB", "BBc0", "u"),
            ("AA", "AAc1", "u"),
            ("BB", "BBc1", "r"),
            ("AA", "AAc0", "u"),
            ("BB", "BBc0", "r"),
        ]
    elif layout == "AA1":
        cells = [("AA", "AAc0", "r")]
    else:
        raise ValueError(layout)
    districts = ["1", "10", "2"] if office in ("H", "Y", "Z") else [None]
    units = []
    counters = {}
    for i in range(n):
        if districts[0]:
            d = districts[i % len(districts)]
            postal, county, cls = cells[(i // len(districts)) % len(cells)]
        else:
            d = None
            postal, county, cls = cells[i % len(cells)]
        k = counters.get((county, d), 0)
        counters[(county, d)] = k + 1
        b = random_baseline(rng)
        r = plausible_result(rng, b)
        x1 = rng.randint(0, 100) / 100.0
        u = make_unit(unit_id(office, county, f"b{k}", d), postal, county, cls, d, b, r, 100.0, x1)
        units.append(u)
    for u in units[len(units) - partial :] if partial else []:
        u["pev"] = 0.0
        u["r_dem"] = u["r_gop"] = u["r_turnout"] = 0
    return units


# ----------------------------------------------------------------------------------------------
# probes

STATUSES = [
    "reporting",
    "nonrep0",
    "nonrep_partial",
    "nonrep_exceed",
    "unexpected",
    "zero_baseline",
    "unit_blocklisted",
    "state_blocklisted",
    "tf_below",
    "tf_at_lower",
    "tf_at_upper",
    "tf_above",
    "missing",
]

# (postal, county, cls)
LOCATIONS = {
    "pop0": ("AA", "AAc0", "r"),
    "pop1": ("AA", "AAc1", "u"),
    "newcounty": ("AA", "AAcN", "r"),
    "newstate": ("BB", "BBc0", "u"),
    "alien": ("ZZ", "ZZc0", "u"),
}


def make_probe(seed, slot, status, loc, office="G", district=None, threshold=100, weights="turnout"):
    """One probe unit.  `weights` says which baseline quantity is the model weight ('turnout' for
    vote-count estimands, 'twoparty' when the margin estimand is requested) so that turnout-factor
    statuses sit exactly at the limits."""
    rng = random.Random(7919 * seed + 101 * slot + sum(map(ord, status + loc)))
    postal, county, cls = LOCATIONS[loc]
    uid = unit_id(office, county, f"p{slot}", district)
    # even numbers so that exact halves / doubles exist
    bd = 4 * rng.randint(30, 200)
    bg = 4 * rng.randint(30, 200)
    other = 4 * rng.randint(1, 10)
    b = (bd, bg, bd + bg + other)
    u = make_unit(uid, postal, county, cls, district, b, plausible_result(rng, b), 100.0, rng.randint(0, 100) / 100.0)
    u["role"] = "probe"
    u["status"] = status
    below = 40.0 if threshold > 40 else max(0.0, threshold - 10.0)

    def scaled(f):
        if weights == "twoparty":
            return (int(bd * f), int(bg * f), int(bd * f) + int(bg * f) + other)
        t = b[2] * f
        assert t == int(t)
        t = int(t)
        d = int(bd * f)
        return (d, t - d - other, t) if t - d - other >= 0 else (d, 0, t)

    if status == "reporting":
        pass
    elif status == "nonrep0":
        u.update(pev=0.0, r_dem=0, r_gop=0, r_turnout=0)
    elif status == "nonrep_partial":
        r = plausible_result(rng, b)
        u.update(pev=below, r_dem=int(r[0] * 0.4), r_gop=int(r[1] * 0.4))
        u["r_turnout"] = u["r_dem"] + u["r_gop"] + 3
    elif status in ("nonrep_hair", "nonrep_hair2"):
        # counted almost completely: a percentage a hair below the threshold (199 999 of 200 000 expected ballots; the
        # float just below the threshold)
        r = plausible_result(rng, b)
        pev = threshold - 0.0005 if status == "nonrep_hair" else math.nextafter(float(threshold), 0.0)
        u.update(pev=pev, r_dem=int(r[0] * 0.9), r_gop=int(r[1] * 0.9))
        u["r_turnout"] = u["r_dem"] + u["r_gop"] + 3
    elif status == "nonrep_exceed":
        u.update(pev=below, r_dem=9 * bd, r_gop=9 * bg, r_turnout=9 * b[2])
    elif status == "unexpected":
        u["in_baseline"] = False
    elif status == "zero_baseline":
        u.update(b_dem=0, b_gop=0, b_turnout=0)
    elif status in ("unit_blocklisted", "state_blocklisted"):
        pass  # the configuration carries the blocklists
    elif status == "tf_below":
        r = scaled(0.25)
        u.update(r_dem=r[0], r_gop=r[1], r_turnout=r[2])
    elif status == "tf_at_lower":
        r = scaled(0.5)
        u.update(r_dem=r[0], r_gop=r[1], r_turnout=r[2])
    elif status == "tf_at_upper":
        r = scaled(2)
        u.update(r_dem=r[0], r_gop=r[1], r_turnout=r[2])
    elif status == "tf_above":
        r = scaled(3)
        u.update(r_dem=r[0], r_gop=r[1], r_turnout=r[2])
    elif status == "missing":
        u["in_feed"] = False
    elif status == "nan_result":
        u["r_nan"] = True  # the feed has a row for the unit, but without results yet
    elif status in COMPOSITE_STATUSES:
        # a unit outside the model for one reason that has also not shown up in the feed (or only as a row without results)
        first, second = status.split("+")
        if first == "zero_baseline":
            u.update(b_dem=0, b_gop=0, b_turnout=0)
        if second == "missing":
            u["in_feed"] = False
        else:
            u["r_nan"] = True
    else:
        raise ValueError(status)
    return u


COMPOSITE_STATUSES = ["unit_blocklisted+missing", "unit_blocklisted+nan_result", "zero_baseline+missing", "zero_baseline+nan_result"]


def blocklists_for(units):
    ub = sorted(u["id"] for u in units if u.get("status", "").startswith("unit_blocklisted"))
    sb = sorted({u["postal"] for u in units if u.get("status") == "state_blocklisted"})
    return ub, sb


# ----------------------------------------------------------------------------------------------
# configuration

DEFAULT_CFG = {
    "office": "G",
    "unit_type": "precinct",
    "estimands": ["turnout"],
    "pi_method": "nonparametric",
    "aggregates": ["postal_code", "unit"],
    "alphas": [0.7],
    "threshold": 100,
    "policy": "drop",
    "features": [],
    "fixed_effects": {},
    "model_parameters": {},
    "states": ["AA", "BB"],
    "lhs": [],
    "rhs": [],
    "stop": [],
    "save_output": [],
}


def make_cfg(**kw):
    cfg = copy.deepcopy(DEFAULT_CFG)
    cfg.update(kw)
    if cfg["office"] in ("H", "Y", "Z") and cfg["unit_type"] == "precinct":
        cfg["unit_type"] = "precinct-district"
    return cfg


def is_district_office(office):
    return office[:1] in ("H", "Y", "Z")


def raw_config(cfg):
    """A *fresh* config dict every time (ConfigHandler.get_features mutates the list it is given)."""
    office = cfg["office"]
    aggs = ["postal_code", "county_classification", "county_fips", "unit"]
    fes = ["postal_code", "county_fips", "county_classification"]
    if cfg.get("district_column") and not is_district_office(office):
        aggs.insert(3, "district")  # a statewide office whose units carry a district column (e.g. votes allocated to districts)
    if is_district_office(office):
        aggs.insert(3, "district")
        fes.append("district")
        types = ["precinct-district", "county-district"]
    else:
        types = ["precinct", "county"]
    sub = {
        "office": office,
        "states": list(cfg["states"]),
        "geographic_unit_types": types,
        "historical_election": [],
        "features": [FEATURE] + [f for f in cfg.get("features", []) if f not in (FEATURE, "baseline_normalized_margin")],
        "aggregates": aggs,
        "fixed_effect": fes,
    }
    if cfg.get("baseline_pointer"):
        # e.g. {"dem": "dem_pres", "gop": "gop", "turnout": "turnout"}: the baseline of an estimand lives in another column
        sub["baseline_pointer"] = dict(cfg["baseline_pointer"])
    return {ELECTION_ID: [sub]}


def _reorder(rows, mode):
    """Row order of an input file is not information: 'reversed' / 'scattered' (by a digest of the unit id) orders."""
    if not mode or mode == "sorted":
        return rows
    if mode == "reversed":
        return rows[::-1]
    if mode == "scattered":
        import hashlib

        return sorted(rows, key=lambda r: hashlib.sha1(r["geographic_unit_fips"].encode()).hexdigest())
    raise ValueError(mode)


def frames(units, cfg):
    """(baseline DataFrame, feed DataFrame) sorted by unit id unless cfg['row_order'] = {'baseline': mode, 'feed': mode}."""
    import pandas as pd

    district = is_district_office(cfg["office"]) or bool(cfg.get("district_column"))
    brow, frow = [], []
    for u in sorted(units, key=lambda u: u["id"]):
        if u["in_baseline"]:
            row = {
                "postal_code": u["postal"],
                "county_fips": u["county"],
                "county_classification": u["cls"],
                "geographic_unit_fips": u["id"],
                "geographic_unit_type": cfg["unit_type"],
                "baseline_turnout": u["b_turnout"],
                "baseline_dem": u["b_dem"],
                "baseline_gop": u["b_gop"],
                FEATURE: u["x1"],
            }
            if district:
                row["district"] = u["district"]
            for k, v in u.get("extra_baseline", {}).items():
                row[k] = v
            brow.append(row)
        if u["in_feed"]:
            nan = u.get("r_nan", False)  # the feed has a row for the unit but no results yet
            blank = u.get("nan_cols", ())  # single result columns the feed leaves empty for this unit
            frow.append(
                {
                    "postal_code": u["postal"],
                    "geographic_unit_fips": u["id"],
                    "results_turnout": None if nan or "turnout" in blank else u["r_turnout"],
                    "results_dem": None if nan or "dem" in blank else u["r_dem"],
                    "results_gop": None if nan or "gop" in blank else u["r_gop"],
                    "percent_expected_vote": u["pev"],
                }
            )
    bcols = [
        "postal_code",
        "county_fips",
        "county_classification",
        "geographic_unit_fips",
        "geographic_unit_type",
        "baseline_turnout",
        "baseline_dem",
        "baseline_gop",
        FEATURE,
    ] + (["district"] if district else [])
    bcols += sorted({k for u in units for k in u.get("extra_baseline", {})})
    fcols = ["postal_code", "geographic_unit_fips", "results_turnout", "results_dem", "results_gop", "percent_expected_vote"]
    order = cfg.get("row_order") or {}
    brow, frow = _reorder(brow, order.get("baseline")), _reorder(frow, order.get("feed"))
    baseline = pd.DataFrame(brow, columns=bcols)
    feed = pd.DataFrame(frow, columns=fcols)
    if cfg.get("float_counts"):
        for c in ("baseline_turnout", "baseline_dem", "baseline_gop"):
            baseline[c] = baseline[c].astype(float)
        for c in ("results_turnout", "results_dem", "results_gop"):
            feed[c] = feed[c].astype(float)
    return baseline, feed


def call_kwargs(units, cfg):
    ub, sb = blocklists_for(units)
    mp = copy.deepcopy(cfg.get("model_parameters", {}))
    if ub and "unit_blocklist" not in mp:
        mp["unit_blocklist"] = ub
    if sb and "postal_code_blocklist" not in mp:
        mp["postal_code_blocklist"] = sb
    mp.setdefault("fit_margin_outlier_model", False)
    mp.setdefault("fit_turnout_outlier_model", False)
    kwargs = dict(
        features=list(cfg["features"]),
        aggregates=list(cfg["aggregates"]),
        fixed_effects=copy.deepcopy(cfg["fixed_effects"]),
        pi_method=cfg["pi_method"],
        save_output=list(cfg.get("save_output", [])),
        handle_unreporting=cfg["policy"],
    )
    if cfg.get("lhs") or cfg.get("rhs") or cfg.get("stop") or cfg["pi_method"] == "bootstrap":
        kwargs["lhs_called_contests"] = list(cfg.get("lhs", []))
        kwargs["rhs_called_contests"] = list(cfg.get("rhs", []))
        kwargs["stop_model_call"] = list(cfg.get("stop", []))
    return mp, kwargs


def table_to_obj(df):
    """JSON-able, bit-faithful rendering of a DataFrame (repr of a double round-trips)."""
    import numpy as np

    cols = [str(c) for c in df.columns]
    rows = []
    for rec in df.itertuples(index=False, name=None):
        out = []
        for v in rec:
            if isinstance(v, (float, np.floating)):
                v = float(v)
                out.append("NaN" if math.isnan(v) else ("Inf" if v == math.inf else ("-Inf" if v == -math.inf else v)))
            elif isinstance(v, (int, np.integer)) and not isinstance(v, bool):
                out.append(int(v))
            elif isinstance(v, (bool, np.bool_)):
                out.append(bool(v))
            elif v is None:
                out.append(None)
            else:
                out.append(str(v))
        rows.append(out)
    return {"columns": cols, "rows": rows}


def run_estimates(units, cfg, client=None, keep_client=False, frames_override=None, kwargs_override=None):
    """One real ModelClient.get_estimates.  Returns {'ok': tables} or {'error': (type, msg)}.
    frames_override=(baseline, feed) hands over caller-owned DataFrame objects instead of freshly built ones;
    kwargs_override hands over caller-owned keyword argument objects (e.g. long-lived contest lists) as they are."""
    from elexmodel.client import ModelClient

    baseline, feed = frames_override if frames_override is not None else frames(units, cfg)
    mp, kwargs = call_kwargs(units, cfg)
    if kwargs_override:
        kwargs.update(kwargs_override)
    client = client or ModelClient()
    try:
        res = client.get_estimates(
            feed,
            ELECTION_ID,
            cfg["office"],
            list(cfg["estimands"]),
            prediction_intervals=list(cfg["alphas"]),
            percent_reporting_threshold=cfg["threshold"],
            geographic_unit_type=cfg["unit_type"],
            raw_config=raw_config(cfg),
            preprocessed_data=baseline,
            model_parameters=mp,
            **kwargs,
        )
    except Exception as e:  # the caller classifies
        import traceback

        out = {"error": [type(e).__name__, str(e)[:400]], "tb": traceback.format_exc(limit=6)[-1500:]}
        if keep_client:
            out["client"] = client
        return out
    out = {"ok": {k: table_to_obj(v) for k, v in res.items()}}
    if keep_client:
        out["client"] = client
        out["raw"] = res
    return out


def tab_rows(tab):
    """list of dict rows from a table_to_obj result."""
    cols = tab["columns"]
    return [dict(zip(cols, r)) for r in tab["rows"]]


def tab_rows_num(tab):
    """like tab_rows, but the textual renderings of non-finite doubles become floats again (NaN compares false to everything)"""
    conv = {"NaN": float("nan"), "Inf": float("inf"), "-Inf": float("-inf")}
    cols = tab["columns"]
    return [dict(zip(cols, [conv.get(v, v) if isinstance(v, str) else v for v in r])) for r in tab["rows"]]
