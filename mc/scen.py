"""E-SCEN: scenario enumeration shared by the input-quantified checks (C01 C02 C03 C10 C11 ...)."""
import itertools

from . import election as E

PROBE_STATUSES = [s for s in E.STATUSES]


def probe_types(office="G", statuses=None, locations=None):
    """All valid (status, location) pairs, simplest first."""
    out = []
    for st in statuses or PROBE_STATUSES:
        for loc in locations or list(E.LOCATIONS):
            if st == "state_blocklisted" and loc != "newstate":
                continue
            if loc == "alien" and st != "unexpected":
                continue
            out.append((st, loc))
    return out


def multisets(types, k):
    """Unordered probe multisets of size exactly k (non-decreasing index tuples)."""
    return [list(c) for c in itertools.combinations_with_replacement(types, k)]


ROW_ORDERS = [None, None, {"baseline": "reversed"}, {"baseline": "scattered", "feed": "reversed"}]


def rotate_row_orders(cases):
    """The row order of the two input files carries no information: every 4-cycle of scenarios gets the files sorted by
    unit id (twice), the baseline file reversed, and both files shuffled (in place, deterministic by case index)."""
    for i, c in enumerate(cases):
        if isinstance(c, dict) and isinstance(c.get("cfg"), dict) and ROW_ORDERS[i % 4]:
            c["cfg"] = dict(c["cfg"], row_order=ROW_ORDERS[i % 4])
    return cases


def build_units(case):
    """Expand a compact case descriptor into the full unit list (deterministic)."""
    cfg = case["cfg"]
    bg = case.get("bg", {})
    office = cfg["office"]
    seed = case.get("seed", 0)
    units = E.background(seed, office, bg.get("n", 12), bg.get("layout", "AA2"), bg.get("partial", 0))
    for i, u in enumerate(units[: bg.get("wild", 0)]):
        # unit 0: far outside the others in turnout factor (still inside the hard limits) and in margin; unit 1: margin only
        if i == 0:
            two = int((u["b_dem"] + u["b_gop"]) * 1.9)
            big, small = int(two * 0.95), two - int(two * 0.95)
            u["r_dem"], u["r_gop"] = (big, small) if u["b_dem"] < u["b_gop"] else (small, big)
            u["r_turnout"] = int(u["b_turnout"] * 1.9)
        else:
            two = u["r_dem"] + u["r_gop"]
            big, small = int(two * 0.93), two - int(two * 0.93)
            u["r_dem"], u["r_gop"] = (big, small) if u["b_dem"] < u["b_gop"] else (small, big)
    weights = "twoparty" if "margin" in cfg["estimands"] else "turnout"
    dcycle = ["1", "10", "2"]
    for slot, p in enumerate(case.get("probes", [])):
        st, loc = p[0], p[1]
        district = None
        if E.is_district_office(office):
            district = p[2] if len(p) > 2 else dcycle[slot % 3]
        units.append(E.make_probe(seed, slot, st, loc, office, district, cfg["threshold"], weights))
    return units


ESTIMATOR_SETUPS = {
    "np1": dict(pi_method="nonparametric", estimands=["turnout"], features=[], alphas=[0.7]),
    "np2": dict(pi_method="nonparametric", estimands=["turnout", "dem"], features=[E.FEATURE], alphas=[0.5, 0.7]),
    "ga1": dict(pi_method="gaussian", estimands=["turnout"], features=[], alphas=[0.7]),
    "ga2": dict(pi_method="gaussian", estimands=["dem"], features=[E.FEATURE], alphas=[0.7, 0.9]),
    "bs1": dict(
        pi_method="bootstrap",
        estimands=["margin"],
        features=["baseline_normalized_margin"],
        alphas=[0.7, 0.9],
        model_parameters={"B": 10, "lambda_": 1.0},
    ),
}

AGG_LISTS = {
    "pc": ["postal_code", "unit"],
    "cf": ["county_fips", "unit"],
    "cc": ["county_classification", "unit"],
    "pc_cf": ["postal_code", "county_fips", "unit"],
    "pc_cc": ["postal_code", "county_classification", "unit"],
    "all": ["postal_code", "county_fips", "county_classification", "unit"],
    "cf_pc": ["county_fips", "postal_code", "unit"],
    # the classification table is computed before the other tables
    "cc_pc_cf": ["county_classification", "postal_code", "county_fips", "unit"],
}
AGG_LISTS_H = {
    "pc": ["postal_code", "unit"],
    "pc_d": ["postal_code", "district", "unit"],
    "pc_d_cf": ["postal_code", "district", "county_fips", "unit"],
    "cf_d": ["county_fips", "district", "unit"],
}


def cfg_for(setup, aggs, policy="drop", threshold=100, office="G", **extra):
    kw = dict(ESTIMATOR_SETUPS[setup])
    kw = {k: (list(v) if isinstance(v, list) else (dict(v) if isinstance(v, dict) else v)) for k, v in kw.items()}
    lists = AGG_LISTS_H if E.is_district_office(office) else AGG_LISTS
    kw.update(aggregates=list(lists[aggs]), policy=policy, threshold=threshold, office=office)
    kw.update(extra)
    return E.make_cfg(**kw)


def bg_for(setup, layout="AA2"):
    n = {"np": 12, "ga": 16, "bs": 16}[setup[:2]]
    return {"n": n, "layout": layout}
