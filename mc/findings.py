"""KNOWN_FINDINGS.txt reader.  The file is committed and never written at run time.

    known: property=<id> sig=<signature> <what fails>
    fixed: property=<id> <commit> <what failed>

A violation is suppressed (reported as KNOWN-FINDING, exit code unaffected) only when its
signature equals the signature of a `known:` line of the same property.  `fixed:` lines
suppress nothing.
"""
import os
import re

from .env import VERIF

PATH = os.path.join(VERIF, "KNOWN_FINDINGS.txt")
_KNOWN = re.compile(r"^known:\s+property=(\S+)\s+sig=(\S+)\s+(.*)$")


def load():
    known = {}
    if not os.path.exists(PATH):
        return known
    with open(PATH, encoding="utf-8") as f:
        for line in f:
            line = line.strip()
            m = _KNOWN.match(line)
            if m:
                known[(m.group(1), m.group(2))] = m.group(3)
    return known
