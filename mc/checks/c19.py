"""C19 - version retrieval returns exactly the requested window despite paging and faults (E-FAULT)."""
import io
import itertools
import math
from collections import Counter
from datetime import datetime, timedelta, timezone

from ..runner import sha

PROPERTY = "C19"
LEVEL = "model_checking"
ENGINE = "E-FAULT"
TECHNIQUE = "exhaustive enumeration of version histories x page sizes x window positions x sampling steps x failing-download subsets against a scripted storage service, executing the real S3VersionUtil.list_versions/get and VersionedDataHandler.get_versioned_results; list-comprehension reference"
RULE = (
    "scripted service: n in 0..N versions newest first, timestamps every non-increasing sequence over {t3>t2>t1} (ties included), page size "
    "1..n+1, window start/end each in {None, t1-, t1, t1+, t2, t2+, t3, t3+} (inverted windows included); real list_versions on all of them; "
    "real get for n<=4 with sample in {1,2,3}, every subset of failing downloads, two target timezones; VersionedDataHandler on empty and "
    "non-empty windows (thorough tier: a fourth timestamp t4 and window ends around it, n <= 7 for listings; retrieval for n <= 5 over 16 windows, page sizes {1,2,3,n,n+1}, sample in 1..5), and constructed through its public constructor with the window given as ISO strings carrying UTC offsets +00:00 / -05:00 / +01:00 / -08:00. non-trivial = the window cuts the history (some but not all versions inside) or a page boundary falls inside the window "
    "or a download fails"
)
ASSUMPTIONS = [
    "the service lists one key, newest first, and honours KeyMarker/VersionIdMarker (delete markers / several keys are outside the stated quantifier)",
    "download futures are awaited in FIFO order by the code under test, so completion order is unobservable to it (argued in DESIGN.md, not explored)",
]

T0 = datetime(2024, 11, 5, 20, 0, 0, tzinfo=timezone.utc)
T = {1: T0 + timedelta(hours=1), 2: T0 + timedelta(hours=2), 3: T0 + timedelta(hours=3), 4: T0 + timedelta(hours=4)}
EPS = timedelta(seconds=1)
WINDOW = {
    "none": None,
    "t1-": T[1] - EPS,
    "t1": T[1],
    "t1+": T[1] + EPS,
    "t2": T[2],
    "t2+": T[2] + EPS,
    "t3": T[3],
    "t3+": T[3] + EPS,
}
# thorough tier: a fourth timestamp and window ends around it
WINDOW_WIDE = dict(WINDOW, **{"t2-": T[2] - EPS, "t4": T[4], "t4+": T[4] + EPS})
GET_WINDOWS = (("none", "none"), ("t2", "none"), ("none", "t2"), ("t1+", "t3"), ("t3+", "none"), ("t2", "t2"))
GET_WINDOWS_WIDE = GET_WINDOWS + (("t1", "t1"), ("t1-", "t2+"), ("t2+", "t3"), ("t3", "t3+"), ("none", "t1-"), ("t1+", "t2"), ("t3", "t1"), ("t2+", "none"), ("none", "t3"), ("t1", "t3+"))


class FakeService:
    def __init__(self, versions, page):
        self.versions = versions
        self.page = page
        self.calls = 0

    def list_object_versions(self, Bucket=None, Prefix=None, KeyMarker=None, VersionIdMarker=None, **kw):
        self.calls += 1
        start = 0
        if VersionIdMarker is not None:
            ids = [v["VersionId"] for v in self.versions]
            start = ids.index(VersionIdMarker) + 1
        page = [dict(v) for v in self.versions[start : start + self.page]]
        truncated = start + self.page < len(self.versions)
        resp = {"IsTruncated": truncated, "Name": Bucket, "Prefix": Prefix}
        if page:
            resp["Versions"] = page
        if truncated:
            resp["NextKeyMarker"] = page[-1]["Key"]
            resp["NextVersionIdMarker"] = page[-1]["VersionId"]
        return resp


class _Meta:
    def __init__(self):
        self.size = None

    def provide_transfer_size(self, size):
        self.size = size


class FakeFuture:
    def __init__(self, fail):
        self.fail = fail
        self.meta = _Meta()

    def result(self):
        if self.fail:
            raise IOError("injected download failure")
        return None


class FakeManager:
    def __init__(self, contents, failing):
        self.contents = contents
        self.failing = failing
        self.requests = []

    def shutdown(self, *a, **k):
        # like s3transfer's manager: nothing can be queued after a shutdown
        self.closed = True

    def download(self, bucket, key, fileobj, extra_args=None, subscribers=None):
        if getattr(self, "closed", False):
            raise RuntimeError("cannot schedule new futures after shutdown")
        vid = (extra_args or {}).get("VersionId")
        self.requests.append(vid)
        fut = FakeFuture(vid in self.failing)
        for s in subscribers or []:
            s.on_queued(fut)
        if vid not in self.failing:
            fileobj.write(self.contents[vid])
        else:
            fileobj.write(self.contents[vid][: len(self.contents[vid]) // 2])  # torn download
        return fut


def _history(stamps):
    """versions newest first; stamps is a non-increasing tuple over {3,2,1}"""
    out = []
    n = len(stamps)
    for i, s in enumerate(stamps):
        out.append({"Key": "root/x/current.csv", "VersionId": f"v{n - i}", "LastModified": T[s], "Size": 100 + i, "IsLatest": i == 0})
    return out


def _csv(vid):
    k = int(vid[1:])
    return f"geographic_unit_fips,postal_code,dem,gop,total,percent_expected_vote\n01001,AA,{10 * k},{5 * k},{16 * k},{min(100, 20 * k)}\n01003,AA,{7 * k},{9 * k},{17 * k},{min(100, 15 * k)}\n".encode()


def bounds(tier):
    if tier == "quick":
        return {"n_versions": "0..5", "timestamps": 3, "page_sizes": "1..n+1", "windows": 64, "get_n": "<=4", "get_windows": 6, "samples": [1, 2, 3], "timezones": ["America/New_York", "UTC"]}
    return {"n_versions": "0..7", "timestamps": 4, "page_sizes": "1..n+1", "windows": 121, "get_n": "<=5", "get_windows": 16, "get_pages": "{1,2,3,n,n+1}", "samples": [1, 2, 3, 4, 5], "timezones": ["America/New_York", "UTC"]}


def cases(tier, seed):
    out = []
    nmax = 5 if tier == "quick" else 7
    for n in range(0, nmax + 1):
        for stamps in itertools.combinations_with_replacement([3, 2, 1] if tier == "quick" else [4, 3, 2, 1], n):
            out.append({"kind": "list", "stamps": list(stamps), "wide": tier != "quick"})
            if n <= 4 and 4 not in stamps:
                out.append({"kind": "get", "stamps": list(stamps)})
            elif tier == "thorough" and n == 5 and 4 not in stamps:
                out.append({"kind": "get", "stamps": list(stamps), "wide": True})
    if tier == "thorough":
        for n in range(1, 5):
            for stamps in itertools.combinations_with_replacement([3, 2, 1], n):
                out.append({"kind": "get", "stamps": list(stamps), "wide": True})
    out.append({"kind": "handler"})
    # the window as the public handler takes it: ISO strings, with and without explicit UTC offsets
    for off in ("+00:00", "-05:00", "+01:00", "-08:00"):
        out.append({"kind": "handler_init", "offset": off})
    return out


def _util(s3mod, versions, page, start, end, tzname, contents=None, failing=()):
    u = s3mod.S3VersionUtil.__new__(s3mod.S3VersionUtil)
    u.bucket_name = "bucket"
    u.s3_client = FakeService(versions, page)
    u.manager = FakeManager(contents or {}, set(failing))
    u.start_date = start
    u.end_date = end
    u.tz = tzname
    return u


def _ref_window(versions, start, end):
    return [v for v in versions if (start is None or v["LastModified"] >= start) and (end is None or v["LastModified"] <= end)]


def evaluate(case):
    from dateutil import tz as dtz

    from elexmodel.handlers import s3 as s3mod

    cov = Counter()
    V = []
    runs = 0
    outcomes = set()
    nontrivial = False

    def viol(kind, msg):
        if not any(v["sig"] == f"C19:{kind}" for v in V):
            V.append({"sig": f"C19:{kind}", "msg": msg})

    if case["kind"] in ("list", "get"):
        versions = _history(case["stamps"])
        n = len(versions)
        contents = {v["VersionId"]: _csv(v["VersionId"]) for v in versions}
    if case["kind"] == "list":
        win = WINDOW_WIDE if case.get("wide") else WINDOW
        for page in range(1, n + 2):
            for sk, start in win.items():
                for ek, end in win.items():
                    u = _util(s3mod, versions, page, start, end, "UTC")
                    try:
                        got = u.list_versions("root/x/current.csv")
                    except Exception as e:
                        viol("list-raised", f"stamps={case['stamps']} page={page} window=[{sk},{ek}]: {type(e).__name__}: {e}")
                        continue
                    runs += 1
                    exp = _ref_window(versions, start, end)
                    gi = [v["VersionId"] for v in got]
                    ei = [v["VersionId"] for v in exp]
                    outcomes.add(tuple(gi))
                    if gi != ei:
                        kind = "duplicates" if len(set(gi)) != len(gi) else ("missing" if set(ei) - set(gi) else ("extra" if set(gi) - set(ei) else "order"))
                        viol(f"list-{kind}", f"stamps={case['stamps']} page={page} window=[{sk},{ek}]: listed {gi} expected {ei}")
                    if u.s3_client.calls > math.ceil(n / page) + 1:
                        viol("list-too-many-calls", f"stamps={case['stamps']} page={page}: {u.s3_client.calls} service calls")
                    if 0 < len(ei) < n:
                        cov["window_cuts_history"] += 1
                        nontrivial = True
                    if page < n and any((i + 1) % page == 0 and i + 1 < n and versions[i]["VersionId"] in ei and versions[i + 1]["VersionId"] in ei for i in range(n)):
                        cov["page_boundary_inside_window"] += 1
                    if page < n and start is not None and any(versions[min(n, (j + 1) * page) - 1]["LastModified"] < start for j in range(math.ceil(n / page) - 1)):
                        cov["early_stop_possible"] += 1
                    if start is not None and end is not None and start > end:
                        cov["inverted_window"] += 1
        cov["list_executions"] += runs
    elif case["kind"] == "get":
        for page in (1, 2, n + 1) if not case.get("wide") else sorted({1, 2, 3, n, n + 1} - {0}):
            for sk, ek in GET_WINDOWS_WIDE if case.get("wide") else GET_WINDOWS:
                start, end = WINDOW[sk], WINDOW[ek]
                exp = _ref_window(versions, start, end)
                for sample in (1, 2, 3) if not case.get("wide") else (1, 2, 3, 4, 5):
                    sampled = exp[::sample]
                    ids = [v["VersionId"] for v in sampled]
                    for r in range(len(ids) + 1):
                        for failing in itertools.combinations(ids, r):
                            for tzname in ("America/New_York", "UTC"):
                                u = _util(s3mod, versions, page, start, end, tzname, contents, failing)
                                runs += 1
                                try:
                                    df = u.get("root/x/current.csv", sample)
                                    err = None
                                except Exception as e:
                                    df, err = None, e
                                ctx = f"stamps={case['stamps']} page={page} window=[{sk},{ek}] sample={sample} failing={list(failing)} tz={tzname}"
                                good = [v for v in sampled if v["VersionId"] not in failing]
                                if failing:
                                    cov["runs_with_failed_download"] += 1
                                    nontrivial = True
                                if not exp:
                                    cov["empty_window_get"] += 1
                                    if err is not None or df is not None:
                                        viol("get-empty-window-not-none", f"{ctx}: expected None, got {type(err).__name__ if err else 'a frame'}")
                                    continue
                                if not good:
                                    cov["all_downloads_failed"] += 1
                                    outcomes.add("all-failed:" + (type(err).__name__ if err else "returned"))
                                    continue  # unspecified by the statement
                                if err is not None:
                                    viol("get-aborted", f"{ctx}: raised {type(err).__name__}: {err} although {len(good)} download(s) succeeded")
                                    continue
                                if df is None:
                                    viol("get-none", f"{ctx}: returned None for a non-empty window")
                                    continue
                                if u.manager.requests != ids:
                                    viol("get-wrong-versions-requested", f"{ctx}: requested {u.manager.requests}, expected every {sample}-th listed version {ids}")
                                exp_rows = []
                                for v in good:
                                    k = int(v["VersionId"][1:])
                                    stamp = v["LastModified"].astimezone(dtz.gettz(tzname))
                                    exp_rows.append(("01001", 10 * k, 5 * k, 16 * k, stamp))
                                    exp_rows.append(("01003", 7 * k, 9 * k, 17 * k, stamp))
                                try:
                                    got_rows = [
                                        (str(r.geographic_unit_fips), int(r.results_dem), int(r.results_gop), int(r.results_turnout), r.last_modified.to_pydatetime())
                                        for r in df.itertuples(index=False)
                                    ]
                                except Exception as e:
                                    viol("get-frame-shape", f"{ctx}: {type(e).__name__}: {e}; columns={list(df.columns)}")
                                    continue
                                same = len(got_rows) == len(exp_rows) and all(
                                    g[:4] == e[:4] and g[4] == e[4] and g[4].utcoffset() == e[4].utcoffset() for g, e in zip(got_rows, exp_rows)
                                )
                                outcomes.add(sha([(g[0], g[1], str(g[4])) for g in got_rows])[:12])
                                if not same:
                                    viol("get-rows", f"{ctx}: rows {[(g[0], g[1], str(g[4])) for g in got_rows]} expected {[(e[0], e[1], str(e[4])) for e in exp_rows]}")
        cov["get_executions"] += runs
    elif case["kind"] == "handler_init":
        from datetime import timezone as _tz

        from elexmodel.handlers.data.VersionedData import VersionedDataHandler

        versions = _history([3, 3, 2, 2, 1, 1])
        # ... and one version that is stored after the handler object was built (stamped far in the future): an open-ended
        # window has no upper bound, whenever the object was constructed
        versions.insert(0, {"Key": "root/x/current.csv", "VersionId": "v7", "LastModified": datetime(2100, 1, 1, tzinfo=timezone.utc), "Size": 99, "IsLatest": True})
        versions[1]["IsLatest"] = False
        contents = {v["VersionId"]: _csv(v["VersionId"]) for v in versions}
        sign = 1 if case["offset"][0] == "+" else -1
        hh = int(case["offset"][1:3])
        zone = _tz(sign * timedelta(hours=hh))

        def iso(dt):
            return None if dt is None else dt.astimezone(zone).isoformat()

        for sk, ek in (("none", "none"), ("t2", "none"), ("none", "t2"), ("t1+", "t2+"), ("t2", "t3"), ("t3+", "none"), ("t1-", "t1")):
            start, end = WINDOW[sk], WINDOW[ek]
            try:
                h = VersionedDataHandler("2099-11-03_USA_G", "P", "county", ["margin"], start_date=iso(start), end_date=iso(end), sample=1, tzinfo="UTC")
            except Exception as e:
                viol("handler-init-raised", f"offset {case['offset']} window=[{sk},{ek}]: {type(e).__name__}: {e}")
                continue
            h.s3_client.s3_client = FakeService(versions, 2)
            h.s3_client.manager = FakeManager(contents, set())
            runs += 1
            exp = _ref_window(versions, start, end)
            try:
                res = h.get_versioned_results()
            except Exception as e:
                viol("handler-raised", f"offset {case['offset']} window=[{sk},{ek}]: {type(e).__name__}: {e}")
                continue
            got_n = 0 if res is None else len(res) // 2
            if got_n != len(exp) or (res is None) != (not exp):
                viol("handler-window-shifted", f"window [{iso(start)}, {iso(end)}] (UTC offset {case['offset']}): {got_n} versions returned, {len(exp)} lie in the window")
            if 0 < len(exp) < len(versions):
                cov["handler_init_cutting_windows"] += 1
        cov["handler_init_executions"] += runs
        nontrivial = True
    else:
        from elexmodel.handlers.data.VersionedData import VersionedDataHandler

        versions = _history([3, 2, 2, 1])
        contents = {v["VersionId"]: _csv(v["VersionId"]) for v in versions}
        for sk, ek in (("t3+", "none"), ("none", "t1-"), ("none", "none"), ("t2", "t3")):
            for eid in ("2099-11-03_USA_G", "2024-11-05_USA_G_x"):
                h = VersionedDataHandler.__new__(VersionedDataHandler)
                h.election_id, h.office_id, h.geographic_unit_type, h.estimands = eid, "P", "county", ["margin"]
                h.sample, h.tz = 1, "America/New_York"
                h.s3_client = _util(s3mod, versions, 2, WINDOW[sk], WINDOW[ek], "America/New_York", contents)
                runs += 1
                exp = _ref_window(versions, WINDOW[sk], WINDOW[ek])
                try:
                    res = h.get_versioned_results()
                except Exception as e:
                    viol("handler-raised", f"window=[{sk},{ek}] {eid}: {type(e).__name__}: {e}")
                    continue
                if not exp:
                    cov["handler_empty_window"] += 1
                    if res is not None:
                        viol("handler-empty-window-not-none", f"window=[{sk},{ek}]: expected None")
                else:
                    if res is None or len(res) != 2 * len(exp):
                        viol("handler-rows", f"window=[{sk},{ek}]: expected {2 * len(exp)} rows, got {None if res is None else len(res)}")
                    elif not res.last_modified.is_monotonic_increasing or "results_normalized_margin" not in res.columns:
                        viol("handler-rows", f"window=[{sk},{ek}]: rows not sorted by version time or estimand columns missing")
                    outcomes.add(len(exp))
                # the same handler object is asked again (results, then predictions-style second retrieval): same answer
                try:
                    h.s3_client.manager.requests = []
                    res2 = h.get_versioned_results()
                    same = (res is None and res2 is None) or (res is not None and res2 is not None and res.equals(res2))
                    if not same:
                        viol("handler-second-retrieval-differs", f"window=[{sk},{ek}] {eid}: a second retrieval on the same handler returned {None if res2 is None else len(res2)} rows, the first {None if res is None else len(res)}")
                except Exception as e:
                    viol("handler-second-retrieval-raised", f"window=[{sk},{ek}] {eid}: second retrieval on the same handler: {type(e).__name__}: {e}")
                cov["handler_repeated_retrievals"] += 1
        cov["handler_executions"] += runs
        nontrivial = True
    return {"violations": V, "cov": dict(cov), "outcome": sha(sorted(map(str, outcomes)))[:16], "nontrivial": nontrivial, "transitions": max(1, runs)}


REQUIRED_COUNTERS = {"list_executions": 10000, "get_executions": 5000, "window_cuts_history": 500, "runs_with_failed_download": 500, "page_boundary_inside_window": 200, "early_stop_possible": 100, "handler_empty_window": 2, "handler_init_cutting_windows": 8, "handler_repeated_retrievals": 8}
