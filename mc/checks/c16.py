"""C16 - fitting and prediction design matrices are aligned and identifiable.

(a) real Featurizer on every level assignment vs a reference written from the statement;
(b) callers' positional slicing: every design-matrix row handed to a solver is decoded back to its unit."""
import itertools
import math
from collections import Counter

from .. import election as E
from .. import refmodel as R
from .. import scen as S
from ..runner import sha

PROPERTY = "C16"
LEVEL = "model_checking"
ENGINE = "E-SEAM+E-SCEN"
TECHNIQUE = "exhaustive enumeration of categorical level assignments (fitting / holdout / unexpected rows) x featurizer configurations through the real Featurizer with a statement-derived reference; solver-seam decoding of every design-matrix row in real estimate runs"
RULE = (
    "(a) frames of 3 fitting rows + 2 holdout rows + 1 unexpected row; one fixed effect: every assignment of levels {a,b,c} to the 6 rows (unexpected "
    "also missing) ; two fixed effects: every assignment of the first over {a,b,c} x second over {p,q} and over {p,q,r} on a covering slice (thorough: complete), and both effects with selected levels over shared level names; x selected levels {all,[a],[a,b]} "
    "x features {none,[x],[baseline_normalized_margin,x]} x centring on/off x separate-state models {none,[AA],[BB without reporting unit],[BB,CC],[AA,BB,CC]} x intercept on "
    "(off only without fixed effects), each assignment also with repeating row labels (as produced by concatenating frames). Oracle: fit and predict column lists equal and ordered intercept / baseline-margin / rest; per effect exactly one "
    "observed level absorbed; every fitted dummy non-constant on fitting rows; seen level => its indicator, unseen => 1/(k+1) on each fitted level; centring "
    "over all rows; 'other' pooling; state copies only for reporting states. (b) real runs of all three estimators with fixed effects, a covariate that "
    "identifies the unit: every row of every X given to fit/predict is decoded to its unit and must carry that unit's response and weight (fit) or follow "
    "that unit's level rule (predict), for median, lower, upper fits and the bootstrap's OLS. non-trivial = some holdout row has an unseen level or a level "
    "is seen only outside the fitting rows"
)
ASSUMPTIONS = ["which observed level is absorbed by the intercept is not prescribed (any one)", "fixed-effect column names are not prefixes of one another (true of postal_code, county_fips, county_classification, district)"]
SELFCHECK_INDEX = 3
LV = ["a", "b", "c"]


def bounds(tier):
    return {"rows": "3 fitting + 2 holdout + 1 unexpected" + ("; and 4 + 2 + 1 over levels a-d" if tier == "thorough" else ""), "levels": LV, "second_effect_levels": ["p", "q"], "b_runs": "3 estimators x fixed-effect layouts x probes with unseen levels"}


def cases(tier, seed):
    out = []
    assigns = list(itertools.product(LV, LV, LV, LV, LV, LV + [None]))
    for i in range(0, len(assigns), 54):
        for sel in ("all", "a", "ab"):
            out.append({"kind": "feat1", "assigns": [list(a) for a in assigns[i : i + 54]], "sel": sel})
    a2 = list(itertools.product(LV, LV, LV, LV, LV))
    b2 = list(itertools.product(["p", "q"], repeat=5))
    for i in range(0, len(a2), 27):
        out.append({"kind": "feat2", "first": [list(a) for a in a2[i : i + 27]], "second": [list(b) for b in (b2 if tier == "thorough" else b2[:: 3])]})
    # the levels of the first effect are numeric codes (an integer column, selected levels given as numbers)
    plain = [a for a in assigns if a[5] is not None]
    for i in range(0, len(plain), 81):
        for sel in ("all", "a", "ab"):
            out.append({"kind": "feat1", "assigns": [list(a) for a in plain[i : i + 81]], "sel": sel, "intcode": True})
    # the second effect over three levels: it can then have fitted dummies *and* a level seen only in the holdout rows while
    # every level of the first effect was seen in fitting (and the other way round)
    b3 = list(itertools.product(["p", "q", "r"], repeat=5))
    for i in range(0, len(a2), 27):
        out.append({"kind": "feat2", "first": [list(a) for a in a2[i : i + 27]], "second": [list(b) for b in (b3 if tier == "thorough" else b3[:: 5])]})
    # both effects with user-selected levels, and the two columns share level names (a level selected for one effect is an
    # unselected level of the other)
    b2s = list(itertools.product(["a", "b"], repeat=5))
    for i in range(0, len(a2), 27):
        for sel, sel2 in (("a", "b"), ("ab", "b"), ("a", "a")):
            out.append({"kind": "feat2", "first": [list(a) for a in a2[i : i + 27]], "second": [list(b) for b in (b2s if tier == "thorough" else b2s[:: 3])], "sel": sel, "sel2": sel2})
    if tier == "thorough":
        # 4 fitting + 2 holdout + 1 unexpected rows over four levels (all 4^6 x 5 assignments)
        lv4 = LV + ["d"]
        big = list(itertools.product(lv4, lv4, lv4, lv4, lv4, lv4, lv4 + [None]))
        for i in range(0, len(big), 160):
            for sel in ("all", "a", "ab"):
                out.append({"kind": "feat1", "nf": 4, "assigns": [list(a) for a in big[i : i + 160]], "sel": sel})
    for pm in ("nonparametric", "gaussian", "bootstrap"):
        for fe in ("county_classification", "county_fips", "both"):
            for probes in ("seen", "unseen", "mixed"):
                for sd in [seed] if tier == "quick" else [seed, seed + 1, seed + 2]:
                    out.append({"kind": "rows", "pm": pm, "fe": fe, "probes": probes, "seed": sd})
    return out


def describe(case):
    c = dict(case)
    for k in ("assigns", "first", "second"):
        if k in c:
            c[k] = f"{len(case[k])} assignments, first {case[k][0]}"
    return c


# ------------------------------------------------------------------------------------------------------------------
# (a) reference featurizer


def _frame(levels1, levels2=None, nf=3, unexpected_reporting=False):
    import pandas as pd

    rows = []
    if nf == 3:
        xs = [0.5, 2.0, 3.5, 7.0, 11.0, None]
        ms = [0.1, -0.2, 0.3, 0.05, -0.4, None]
        states = ["AA", "AA", "CC", "AA", "BB", "AA"]
    else:
        xs = [0.5, 2.0, 3.5, 5.0, 7.0, 11.0, None]
        ms = [0.1, -0.2, 0.3, 0.15, 0.05, -0.4, None]
        states = ["AA", "AA", "CC", "AA", "AA", "BB", "AA"]
    for i in range(nf + 3):
        rows.append(
            {
                "postal_code": states[i],
                "reporting": 1 if i < nf or (unexpected_reporting and i == nf + 2) else 0,
                "unit_category": "expected" if i < nf + 2 else "unexpected",
                "fe1": levels1[i],
                "x": xs[i],
                "baseline_normalized_margin": ms[i],
            }
        )
        if levels2 is not None:
            rows[-1]["fe2"] = levels2[i] if i < nf + 2 else levels2[0]
    return pd.DataFrame(rows)


SEL = {"a": ["a"], "ab": ["a", "b"], "b": ["b"]}


def _pool(level, sel):
    if level is None or (isinstance(level, float) and math.isnan(level)):
        return None
    if sel == "all":
        return level
    return level if level in SEL[sel] else "other"


CODE = {"a": 1, "b": 2, "c": 3, "d": 4}


def _check_featurizer(df, effects, sel, feats, center, states, intercept, viol, cov, ctx, labels=None, nf=3, sel2="all", intcode=False):
    if labels is not None:
        df = df.copy()
        df.index = labels
        cov["frames_with_duplicate_row_labels"] += 1
    import numpy as np

    from elexmodel.handlers.data.Featurizer import Featurizer

    sels = {"fe1": sel, "fe2": sel2}
    fe_arg = {e: ("all" if sels[e] == "all" else list(SEL[sels[e]])) for e in effects}
    if intcode:
        df = df.copy()
        df["fe1"] = df["fe1"].map(CODE).astype(int)
        if sels["fe1"] != "all":
            fe_arg["fe1"] = [CODE[x] for x in SEL[sels["fe1"]]]
        cov["frames_with_numeric_level_codes"] += 1
    f = Featurizer(list(feats), fe_arg if effects else [], states_for_separate_model=list(states))
    try:
        x_all = f.prepare_data(df, center_features=center, scale_features=False, add_intercept=intercept)
        fit = f.filter_to_active_features(x_all[:nf])
        pred = f.generate_holdout_data(x_all[nf : nf + 2])
    except Exception as e:
        viol("featurizer-raised", f"{ctx}: {type(e).__name__}: {e}")
        return False
    fc, pc = list(fit.columns), list(pred.columns)
    if fc != pc:
        viol("columns-differ", f"{ctx}: fit columns {fc} != predict columns {pc}")
        return False
    # order
    k = 0
    if intercept:
        if not fc or fc[0] != "intercept":
            viol("column-order", f"{ctx}: intercept is not first: {fc}")
        k = 1
    bm = [c for c in fc if c.startswith("baseline_normalized_margin")]
    if fc[k : k + len(bm)] != bm:
        viol("column-order", f"{ctx}: baseline margin columns are not right after the intercept: {fc}")
    if intercept and not (fit["intercept"].isin([0, 1]).all()):
        viol("intercept-values", f"{ctx}: intercept column {fit['intercept'].tolist()}")
    nontrivial = False
    for e in effects:
        s_e = sels[e]
        raw = list(df[e])
        if intcode and e == "fe1":
            back = {v: k for k, v in CODE.items()}
            raw = [back[int(v)] for v in raw]
        fitlv = [_pool(v, s_e) for v in raw[:nf]]
        holdlv = [_pool(v, s_e) for v in raw[nf : nf + 2]]
        alllv = [_pool(v, s_e) for v in raw]
        if intcode and e == "fe1":
            ren = lambda x: x if x in ("other", None) else str(CODE[x])  # noqa: E731
            fitlv, holdlv, alllv = [ren(x) for x in fitlv], [ren(x) for x in holdlv], [ren(x) for x in alllv]
        observed = sorted(set(fitlv))
        dcols = [c for c in fc if c.startswith(e + "_")]
        dl = [c[len(e) + 1 :] for c in dcols]
        if intercept:
            if not set(dl) <= set(observed) or len(dl) != len(observed) - 1:
                viol("absorbed-level", f"{ctx}: effect {e}: observed levels on fitting rows {observed}, fitted dummies {dl} (exactly one observed level must be absorbed)")
                continue
        elif sorted(dl) != observed:
            viol("absorbed-level", f"{ctx}: effect {e} without intercept: fitted dummies {dl}, observed {observed}")
            continue
        for c, lvl in zip(dcols, dl):
            col = fit[c].tolist()
            exp = [1 if v == lvl else 0 for v in fitlv]
            if col != exp:
                viol("fit-indicator", f"{ctx}: column {c} on fitting rows {col}, expected {exp}")
            if len(set(col)) < 2 and intercept:
                viol("constant-dummy", f"{ctx}: fitted dummy {c} is constant on the fitting rows")
        kk = len(dl)
        for r, lvl in enumerate(holdlv):
            got = [float(pred[c].iloc[r]) for c in dcols]
            if lvl in observed:
                exp = [1.0 if lvl == x else 0.0 for x in dl]
            else:
                exp = [1.0 / (kk + 1)] * kk
                nontrivial = True
                cov["holdout_rows_with_unseen_level"] += 1
                if e == "fe2" and kk > 0:
                    cov["second_effect_unseen_level_with_fitted_dummies"] += 1
            if any(abs(g - x) > 1e-12 for g, x in zip(got, exp)):
                viol("holdout-level-rule", f"{ctx}: holdout row {r} level {lvl!r} (observed in fitting: {observed}) got {dict(zip(dcols, got))}, expected {exp}")
        if set(x for x in alllv if x is not None) - set(observed):
            nontrivial = True
            cov["levels_only_outside_fitting_rows"] += 1
    # features
    if feats and not states:
        for ft in feats:
            vals = df[ft].astype(float)
            mean = vals.mean() if center else 0.0
            exp = (vals - mean).tolist()
            got = list(fit[ft]) + list(pred[ft])
            if any(abs(g - x) > 1e-9 for g, x in zip(got, exp[: nf + 2])):
                viol("feature-centring", f"{ctx}: feature {ft}: {got} expected {exp[: nf + 2]} (centre={center})")
    if states:
        rep_states = set(df.postal_code[:nf])
        for st in states:
            for ft in feats:
                name = f"{ft}_{st}"
                if st in rep_states:
                    if name not in fc:
                        viol("state-copy-missing", f"{ctx}: state {st} has reporting units but column {name} is missing: {fc}")
                    else:
                        col = list(fit[name]) + list(pred[name])
                        outside = [v for v, s in zip(col, df.postal_code[: nf + 2]) if s != st]
                        if any(abs(v) > 1e-12 for v in outside):
                            viol("state-copy-leaks", f"{ctx}: column {name} is non-zero outside state {st}: {col}")
                        cov["state_copies_checked"] += 1
                elif name in fc:
                    viol("state-copy-for-silent-state", f"{ctx}: column {name} created although state {st} has no reporting unit")
                else:
                    cov["silent_state_no_copy"] += 1
    cov["featurizer_runs"] += 1
    return nontrivial


def _feat_case(case, cov, viol):
    runs = 0
    nontrivial = False
    nf = case.get("nf", 3)
    sel2 = case.get("sel2", "all")
    if case["kind"] == "feat1":
        todo = [(a, None) for a in case["assigns"]]
    else:
        todo = [(a + [a[0]], b + [b[0]]) for a in case["first"] for b in case["second"]]
    for idx, (l1, l2) in enumerate(todo):
        df = _frame(l1, l2, nf)
        effects = ["fe1"] + (["fe2"] if l2 is not None else [])
        sel = case.get("sel", "all")
        variants = [
            ([], True, [], True),
            (["x"], True, [], True),
            (["baseline_normalized_margin", "x"], False, [], True),
            (["x", "baseline_normalized_margin"], True, ["AA"], True),
            (["x"], False, ["BB"], True),
            # several listed states, a silent one in front of / between reporting ones
            (["x"], True, ["BB", "CC"], True),
            (["x", "baseline_normalized_margin"], False, ["AA", "BB", "CC"], True),
        ]
        if case["kind"] == "feat2":
            variants = [variants[idx % 7], variants[(idx + 2) % 7]]
        for feats, center, states, intercept in variants:
            ctx = f"fe1={l1} fe2={l2} selected={sel} selected_fe2={sel2} features={feats} centre={center} separate_states={states} intercept={intercept}"
            nt = _check_featurizer(df, effects, sel, feats, center, states, intercept, viol, cov, ctx + (" numeric_level_codes" if case.get("intcode") else ""), nf=nf, sel2=sel2, intcode=bool(case.get("intcode")))
            if sel2 != "all" and sel != "all":
                cov["two_effects_with_selected_levels"] += 1
            nontrivial = nontrivial or bool(nt)
            runs += 1
        # an unexpected unit may arrive flagged as reporting (frames not built by the data handler): it is still not a fitting row
        feats, center, states, intercept = variants[(idx + 1) % len(variants)]
        ctx = f"fe1={l1} fe2={l2} selected={sel} selected_fe2={sel2} features={feats} centre={center} separate_states={states} intercept={intercept} unexpected_row_flagged_reporting"
        _check_featurizer(_frame(l1, l2, nf, unexpected_reporting=True), effects, sel, feats, center, states, intercept, viol, cov, ctx, nf=nf, sel2=sel2)
        cov["frames_with_reporting_unexpected_row"] += 1
        runs += 1
        # the callers concatenate frames that each carry their own 0..n-1 row labels: labels repeat, also within the holdout rows
        feats, center, states, intercept = variants[idx % len(variants)]
        ctx = f"fe1={l1} fe2={l2} selected={sel} features={feats} centre={center} separate_states={states} intercept={intercept} row_labels=[0..{nf - 1},0,0,1]"
        _check_featurizer(df, effects, sel, feats, center, states, intercept, viol, cov, ctx, labels=list(range(nf)) + [0, 0, 1], nf=nf, sel2=sel2)
        runs += 1
    if case["kind"] == "feat1" and case["sel"] == "all":
        # without fixed effects: intercept off / on
        df = _frame(case["assigns"][0], None, nf)
        for intercept in (False, True):
            for feats in (["x"], ["baseline_normalized_margin", "x"]):
                _check_featurizer(df, [], "all", feats, True, [], intercept, viol, cov, f"no fixed effects features={feats} intercept={intercept}", nf=nf)
                runs += 1
    return runs, nontrivial


# ------------------------------------------------------------------------------------------------------------------
# (b) row decoding through the solver seam

_REC = None


class _Recorder:
    def __init__(self):
        from elexsolver.OLSRegressionSolver import OLSRegressionSolver
        from elexsolver.QuantileRegressionSolver import QuantileRegressionSolver

        self.log = []
        rec = self
        self.orig = {}
        for cls in (QuantileRegressionSolver, OLSRegressionSolver):
            for meth in ("fit", "predict"):
                orig = getattr(cls, meth)
                self.orig[(cls, meth)] = orig

                def wrapper(solver, *args, _orig=orig, _cls=cls.__name__, _meth=meth, **kwargs):
                    import sys

                    import numpy as np

                    caller = sys._getframe(1).f_code.co_name
                    entry = {"cls": _cls, "meth": _meth, "caller": caller, "x": np.array(args[0], dtype=float, copy=True)}
                    if _meth == "fit":
                        entry["y"] = np.array(args[1], dtype=float, copy=True)
                        w = kwargs.get("weights", args[2] if len(args) > 2 and _cls.startswith("OLS") else None)
                        entry["w"] = None if w is None else np.array(w, dtype=float, copy=True)
                        entry["taus"] = kwargs.get("taus")
                    if rec.on:
                        rec.log.append(entry)
                    return _orig(solver, *args, **kwargs)

                setattr(cls, meth, wrapper)
        self.on = False


def worker_init():
    global _REC
    _REC = _Recorder()


def _rows_case(case, cov, viol):
    import numpy as np

    pm = case["pm"]
    seed = case["seed"]
    w = "twoparty" if pm == "bootstrap" else "turnout"
    units = E.background(seed, "G", 20, "AA2", partial=0)
    # a third class 's' and a third county among reporting units
    for i, u in enumerate(units):
        if i % 5 == 4:
            u["cls"] = "s"
    probes = []
    spec = {"seen": [("pop0", None), ("pop1", None)], "unseen": [("newcounty", "zz"), ("newcounty", "yy")], "mixed": [("pop0", None), ("newcounty", "zz"), ("pop1", "yy")]}[case["probes"]]
    for k, (loc, cls) in enumerate(spec):
        p = E.make_probe(seed, k, "nonrep_partial", loc, weights=w)
        if cls:
            p["cls"] = cls
        probes.append(p)
    units += probes
    units.append(E.make_probe(seed, 7, "unexpected", "pop0", weights=w))
    # covariate that identifies the unit
    for i, u in enumerate(sorted(units, key=lambda u: u["id"])):
        u["x1"] = float(3 * i + 1)
    fe = {"county_classification": {"county_classification": ["all"]}, "county_fips": {"county_fips": ["all"]}, "both": {"county_classification": ["all"], "county_fips": ["all"]}}[case["fe"]]
    feats = ["baseline_normalized_margin", E.FEATURE] if pm == "bootstrap" else [E.FEATURE]
    mp = {"B": 5, "lambda_": 1.0} if pm == "bootstrap" else {}
    cfg = E.make_cfg(pi_method=pm, estimands=["margin"] if pm == "bootstrap" else ["turnout"], features=feats, fixed_effects=fe, alphas=[0.7], aggregates=["postal_code", "unit"], model_parameters=mp)
    _REC.log = []
    _REC.on = True
    try:
        res = E.run_estimates(units, cfg, keep_client=True)
    finally:
        _REC.on = False
    log = list(_REC.log)
    _REC.log = []
    ctx = f"{pm} fixed_effects={list(fe)} probes={case['probes']}"
    if "error" in res:
        viol("run-raised", f"{ctx}: {res['error']}")
        return 1, True
    cats = R.categorize(units, cfg)
    byid = {u["id"]: u for u in units}
    fit_ids = [u for u, c in cats.items() if c["kind"] == "fit"]
    pred_ids = [u for u, c in cats.items() if c["kind"] == "predict"]
    modeled = fit_ids + pred_ids
    center = pm != "bootstrap"
    mean = sum(byid[u]["x1"] for u in modeled) / len(modeled) if center else 0.0
    xcol = 2 if pm == "bootstrap" else 1  # [intercept, (baseline_normalized_margin,) x1, dummies...]
    by_x = {round(byid[u]["x1"] - mean, 6): u for u in modeled}

    def decode(X):
        ids = []
        for row in X:
            ids.append(by_x.get(round(float(row[xcol]), 6)))
        return ids

    def response(uid):
        u = byid[uid]
        if pm == "bootstrap":
            return (u["r_dem"] - u["r_gop"]) / (u["r_dem"] + u["r_gop"]), float(u["b_dem"] + u["b_gop"])
        wgt = u["b_turnout"] + 1
        return (u["r_turnout"] - wgt) / wgt, float(wgt)

    rh = res["client"].results_handler
    nonrep_order = list(rh.nonreporting_units.geographic_unit_fips)
    rep_order = list(rh.reporting_units.geographic_unit_fips)
    wanted_callers = {"fit_model", "get_unit_predictions", "get_unit_prediction_interval_bounds", "compute_bootstrap_errors"}
    fits = [e for e in log if e["meth"] == "fit" and e["caller"] in wanted_callers]
    preds = [e for e in log if e["meth"] == "predict" and e["caller"] in wanted_callers]
    if not fits or not preds:
        raise RuntimeError(f"seam recorded {len(fits)} fits / {len(preds)} predicts")
    fit_dummies = {}
    ncol = None
    for e in fits:
        ids = decode(e["x"])
        if None in ids:
            viol("fit-row-not-a-unit", f"{ctx}: a row of the fitting matrix (caller {e['caller']}) does not belong to any modelled unit")
            continue
        if set(ids) - set(fit_ids):
            viol("non-fitting-unit-in-fit", f"{ctx}: units {sorted(set(ids) - set(fit_ids))} appear in a fitting matrix")
        if len(set(ids)) != len(ids):
            viol("fit-row-duplicated", f"{ctx}: a unit appears twice in a fitting matrix")
        y = e["y"].reshape(len(ids), -1)
        for i, uid in enumerate(ids):
            ry, rw = response(uid)
            if pm == "bootstrap":
                # OLS is fit to the observed margin / turnout factor first and to B bootstrap columns later; check the observed ones
                if y.shape[1] == 1 and not (abs(y[i, 0] - ry) < 1e-9 or abs(y[i, 0] - (byid[uid]["r_dem"] + byid[uid]["r_gop"]) / rw) < 1e-9):
                    viol("fit-row-wrong-response", f"{ctx}: fitting row decoded as {uid} carries response {y[i, 0]}, neither its margin {ry} nor its turnout factor")
            elif abs(y[i, 0] - ry) > 1e-9:
                viol("fit-row-wrong-response", f"{ctx}: fitting row decoded as {uid} carries response {y[i, 0]}, the unit's is {ry}")
            if e["w"] is not None and abs(float(np.asarray(e["w"]).reshape(-1)[i]) - rw) > 1e-6:
                viol("fit-row-wrong-weight", f"{ctx}: fitting row decoded as {uid} carries weight {float(np.asarray(e['w']).reshape(-1)[i])}, the unit's is {rw}")
            fit_dummies.setdefault(e["x"].shape[1], {})[uid] = e["x"][i, xcol + 1 :]
        cov["fit_rows_decoded"] += len(ids)
        if e["caller"] == "fit_model" or pm == "bootstrap":
            ncol = e["x"].shape[1]
    fes = list(fe)
    for e in preds:
        ids = decode(e["x"])
        if None in ids:
            viol("predict-row-not-a-unit", f"{ctx}: a row handed to predict (caller {e['caller']}) does not belong to any modelled unit")
            continue
        kind = "holdout" if set(ids) <= set(pred_ids) else ("calibration/train" if set(ids) <= set(fit_ids) else "mixed")
        if kind == "mixed":
            viol("predict-rows-mixed", f"{ctx}: predict matrix mixes fitting and outstanding units: {ids}")
            continue
        if kind == "holdout" and ids != nonrep_order:
            viol("holdout-order", f"{ctx}: holdout rows are for {ids} but predictions are assigned to {nonrep_order}")
        ref = fit_dummies.get(e["x"].shape[1], {})
        for i, uid in enumerate(ids):
            u = byid[uid]
            row = e["x"][i, xcol + 1 :]
            same = [v for other, v in ref.items() if all(byid[other][{"county_classification": "cls", "county_fips": "county"}[f]] == u[{"county_classification": "cls", "county_fips": "county"}[f]] for f in fes)]
            if same:
                if not any(np.allclose(row, v, atol=1e-12) for v in same):
                    viol("predict-row-level-rule", f"{ctx}: row of {uid} (levels seen in fitting) has dummies {row.tolist()} unlike any fitting unit with the same levels")
                cov["predict_rows_seen_level"] += 1
            elif len(fes) == 1 and kind == "holdout":
                seen_levels = {byid[o][{"county_classification": "cls", "county_fips": "county"}[fes[0]]] for o in ref}
                lvl = u[{"county_classification": "cls", "county_fips": "county"}[fes[0]]]
                if lvl not in seen_levels:
                    k = len(row)
                    if not np.allclose(row, 1.0 / (k + 1), atol=1e-12):
                        viol("predict-row-level-rule", f"{ctx}: row of {uid} with unseen level {lvl!r} has dummies {row.tolist()}, expected all {1.0 / (k + 1)}")
                    cov["predict_rows_unseen_level"] += 1
        cov["predict_rows_decoded"] += len(ids)
    return 1, case["probes"] != "seen"


def evaluate(case):
    cov = Counter()
    V = []

    def viol(kind, msg):
        if not any(v["sig"] == f"C16:{kind}" for v in V):
            V.append({"sig": f"C16:{kind}", "msg": str(msg)[:1000]})

    if case["kind"] in ("feat1", "feat2"):
        runs, nontrivial = _feat_case(case, cov, viol)
    else:
        runs, nontrivial = _rows_case(case, cov, viol)
    return {"violations": V, "cov": dict(cov), "outcome": sha([v["sig"] for v in V] + [case["kind"], runs]), "nontrivial": nontrivial, "transitions": max(1, runs)}


REQUIRED_COUNTERS = {"featurizer_runs": 5000, "holdout_rows_with_unseen_level": 500, "levels_only_outside_fitting_rows": 500, "fit_rows_decoded": 500, "predict_rows_decoded": 200, "predict_rows_unseen_level": 10, "state_copies_checked": 100, "silent_state_no_copy": 100, "frames_with_duplicate_row_labels": 500, "two_effects_with_selected_levels": 1000, "second_effect_unseen_level_with_fitted_dummies": 500, "frames_with_reporting_unexpected_row": 500, "frames_with_numeric_level_codes": 500}
