"""C06 - bootstrap intervals are ordered, nested by level, and margins stay in [-1, 1]."""
import itertools
from collections import Counter

from .. import election as E
from .. import refmodel as R
from .. import scen as S
from ..runner import sha

PROPERTY = "C06"
LEVEL = "model_checking"
ENGINE = "E-SEAM+E-SCEN"
TECHNIQUE = "exhaustive enumeration: (a) every (B, alpha) state of the rank arithmetic on the real _get_quantiles; (b) every bootstrap draw matrix over a value alphabet (up to permutation of draws) through the real unit/aggregate interval methods; (c) end-to-end bootstrap scenarios incl. an extreme election"
RULE = (
    "(a) every B in 2..BMAX x alpha in {k/1000} u {1e-6, 0.9999}: 0 <= lower rank <= upper rank <= 1, ranks monotone in alpha, national-summary indices inside "
    "[0, 2B); (b) model state errors_B_1..4 / point predictions filled with every multiset of B draws over (estimate margin, truth margin) in "
    "{-0.6,-0.001,0.001,0.6}^2 x turnout pairs {(1,1),(0.5,1),(1,0.5)} (B=2; reduced alphabet for B=3,4) x 8 point predictions, three outstanding units in two "
    "contests: unit lower <= upper, group lower < pred < upper, and for alphas 0.5<0.8<0.95 the intervals are nested at unit and group level; "
    "(c) real client runs with B in {2,3,10}, fixed / cross-validated lambda, with/without fixed effects and districts, partial percentages {0,20,60,95}, "
    "normal and extreme (baseline margins +-0.95, one-party results) elections, and runs with the presidential correction enabled (its three remote files "
    "served by the object-store seam) on a one-party outstanding county whose corrected margin exceeds the feasible range: pred_margin in [-1,1], "
    "pred_turnout >= 0 and the relations of (b). "
    "non-trivial = (b) the draws are not all equal; (c) the run has outstanding units"
)
ASSUMPTIONS = ["(b) quantiles are permutation invariant in the draws, so multisets of draws are enumerated (asserted once per worker on B=2)", "groups are not called or stop-listed (C07 covers those)"]
MARG = [-0.6, -0.001, 0.001, 0.6]
TURN = [(1.0, 1.0), (0.5, 1.0), (1.0, 0.5)]
ALPHAS = [0.5, 0.8, 0.95]
WGT = 1000.0
SELFCHECK_INDEX = 4


def bounds(tier):
    return {"a_B": "2..2000" if tier == "quick" else "2..5000", "b_B": "2 (full), 3 (reduced)" if tier == "quick" else "2,3 (full), 4 (reduced)", "c_runs": "B x lambda x fixed effects x office x background"}


def _draw_types(full):
    m = MARG if full else [-0.6, 0.001, 0.6]
    t = TURN if full else TURN[:2]
    return [(a, b, tt) for a in m for b in m for tt in range(len(t))]


def cases(tier, seed):
    out = []
    bmax = 2000 if tier == "quick" else 5000
    for lo in range(2, bmax + 1, 125):
        out.append({"kind": "ranks", "B_lo": lo, "B_hi": min(bmax, lo + 124)})
    plan = [(2, True), (3, False)] if tier == "quick" else [(2, True), (3, True), (4, False)]
    for B, full in plan:
        types = _draw_types(full)
        ms = list(itertools.combinations_with_replacement(range(len(types)), B))
        chunk = 60
        for i in range(0, len(ms), chunk):
            out.append({"kind": "draws", "B": B, "full": full, "sets": [list(m) for m in ms[i : i + chunk]]})
    for B in (2, 3, 10):
        for lam in (1.0, None):
            for fe in (False, True):
                for office in ("G", "H"):
                    for bgk in ("normal", "extreme"):
                        if tier == "quick" and lam is None and (B == 3 or office == "H"):
                            continue
                        out.append({"kind": "scen", "B": B, "lambda": lam, "fe": fe, "office": office, "bg": bgk, "seed": seed})
                        if lam == 1.0 and (B == 10 or tier == "thorough"):
                            # the documented error bound on the expected-vote percentage, below and above its default 0.5
                            for evb in (0.25, 0.6, 0.9):
                                out.append({"kind": "scen", "B": B, "lambda": lam, "fe": fe, "office": office, "bg": bgk, "evb": evb, "seed": seed})
    # presidential correction (reads three remote files, served by the object-store seam): a one-party outstanding county
    # whose corrected margin lands beyond the feasible range
    for B in (5, 20):
        for sign in (1, -1):
            for pev in (80.0, 60.0):
                out.append({"kind": "pres", "B": B, "sign": sign, "pev": pev, "seed": seed})
    return out


def describe(case):
    c = dict(case)
    if "sets" in c:
        c["sets"] = f"{len(case['sets'])} multisets of draw types, first {case['sets'][0]}"
    return c


def _ranks(case, cov, viol):
    import math

    import numpy as np

    from elexmodel.models.BootstrapElectionModel import BootstrapElectionModel

    alphas = [1e-6] + [k / 1000 for k in range(1, 1000)] + [0.9999]
    m = BootstrapElectionModel({"features": ["baseline_normalized_margin"]})
    n = 0
    for B in range(case["B_lo"], case["B_hi"] + 1):
        m.B = B
        prev = None
        for a in alphas:
            lq, uq = m._get_quantiles(a)
            lq, uq = float(lq), float(uq)
            n += 1
            if not (0.0 <= lq <= uq <= 1.0):
                viol("invalid-rank", f"B={B} alpha={a}: lower_q={lq} upper_q={uq}")
            if prev is not None and (lq > prev[0] + 1e-15 or uq < prev[1] - 1e-15):
                viol("rank-not-monotone", f"B={B}: alpha {prev[2]} -> {a}: ranks ({prev[0]},{prev[1]}) -> ({lq},{uq})")
            i_lo, i_hi = int(np.floor(lq * B * 2)), int(np.ceil(uq * B * 2))
            if not (0 <= i_lo <= i_hi < 2 * B):
                viol("summary-index-out-of-range", f"B={B} alpha={a}: national summary indices ({i_lo},{i_hi}) outside [0,{2 * B})")
            prev = (lq, uq, a)
    cov["rank_states"] += n
    return n, True


_FRAMES = None


def _frames():
    import pandas as pd

    global _FRAMES
    if _FRAMES is None:
        rep = pd.DataFrame(
            {"postal_code": ["AA", "BB"], "geographic_unit_fips": ["a_r", "b_r"], "baseline_weights": [WGT, WGT], "results_normalized_margin": [0.1, -0.2], "turnout_factor": [1.0, 0.9],
             "results_margin": [100.0, -180.0], "pred_margin": [100.0, -180.0], "results_weights": [1000.0, 900.0], "reporting": [1, 1],
             "baseline_dem": [500.0, 400.0], "baseline_gop": [450.0, 500.0], "baseline_turnout": [1000.0, 950.0]}
        )
        nonrep = pd.DataFrame({"postal_code": ["AA", "BB", "BB"], "geographic_unit_fips": ["a_o", "b_o1", "b_o2"], "results_margin": [0.0, 0.0, 0.0], "reporting": [0, 0, 0],
                               "baseline_dem": [500.0, 400.0, 300.0], "baseline_gop": [450.0, 500.0, 300.0], "baseline_turnout": [1000.0, 950.0, 650.0]})
        unx = pd.DataFrame({"postal_code": pd.Series([], dtype=str), "geographic_unit_fips": pd.Series([], dtype=str), "results_margin": pd.Series([], dtype=float), "pred_margin": pd.Series([], dtype=float), "results_weights": pd.Series([], dtype=float), "reporting": pd.Series([], dtype=int)})
        _FRAMES = (rep, nonrep, unx)
    return _FRAMES


def _draws(case, cov, viol):
    import numpy as np

    from elexmodel.models.BootstrapElectionModel import BootstrapElectionModel

    B = case["B"]
    types = _draw_types(case["full"])
    turn = TURN if case["full"] else TURN[:2]
    rep, nonrep, unx = _frames()
    preds = [(pm, pt) for pm in MARG for pt in (1.0, 0.5)]
    runs = 0
    nontrivial = False
    m = BootstrapElectionModel({"features": ["baseline_normalized_margin"], "B": B})
    m.ran_bootstrap = True
    fixed = np.array([[0.2 * ((-1) ** b) * (b + 1) / B for b in range(B)], [0.1 * (b - 1) for b in range(B)]])  # unit b_o2: est / truth margins
    for ms in case["sets"]:
        draws = [types[i] for i in ms]
        if len(set(draws)) > 1:
            nontrivial = True
        e1 = np.array([d[0] * turn[d[2]][0] * WGT for d in draws])
        e2 = np.array([d[1] * turn[d[2]][1] * WGT for d in draws])
        e3 = np.array([turn[d[2]][0] * WGT for d in draws])
        e4 = np.array([turn[d[2]][1] * WGT for d in draws])
        m.errors_B_1 = np.vstack([e1, e1, fixed[0] * WGT])
        m.errors_B_2 = np.vstack([e2, e2, fixed[1] * WGT])
        m.errors_B_3 = np.vstack([e3, e3, np.full(B, WGT)])
        m.errors_B_4 = np.vstack([e4, e4, np.full(B, WGT)])
        for pm_, pt in preds:
            m.weighted_yz_test_pred = np.array([[pm_ * pt * WGT], [pm_ * pt * WGT], [0.05 * WGT]])
            m.weighted_z_test_pred = np.array([[pt * WGT], [pt * WGT], [WGT]])
            nr = nonrep.assign(pred_margin=m.weighted_yz_test_pred.flatten())
            ctx = f"B={B} draws(est margin, truth margin, turnout pair)={draws} point=(margin {pm_}, turnout {pt})"
            try:
                agg = m.get_aggregate_predictions(rep, nr, unx, ["postal_code"], "margin")
                pred = dict(zip(agg.postal_code, agg.pred_margin))
                unit_iv, agg_iv = {}, {}
                for a in ALPHAS:
                    u = m.get_unit_prediction_intervals(rep, nr, a, "margin")
                    g = m.get_aggregate_prediction_intervals(rep, nr, unx, ["postal_code"], a, u, "margin")
                    unit_iv[a] = (np.asarray(u.lower).flatten(), np.asarray(u.upper).flatten())
                    agg_iv[a] = (np.asarray(g.lower).flatten(), np.asarray(g.upper).flatten())
                    runs += 1
            except Exception as e:
                viol("interval-method-raised", f"{ctx}: {type(e).__name__}: {e}")
                continue
            for a in ALPHAS:
                lo, hi = unit_iv[a]
                if not (lo <= hi).all():
                    viol("unit-lower-above-upper", f"{ctx} alpha={a}: unit lower {lo} upper {hi}")
                glo, ghi = agg_iv[a]
                for j, st in enumerate(agg.postal_code):
                    if not (glo[j] < pred[st] < ghi[j]):
                        viol("group-pred-not-inside", f"{ctx} alpha={a}: group {st} lower {glo[j]} pred {pred[st]} upper {ghi[j]}")
                    if not (-1.0 <= pred[st] <= 1.0):
                        viol("group-margin-out-of-range", f"{ctx}: group {st} pred_margin {pred[st]}")
            for a, b in ((0.5, 0.8), (0.8, 0.95), (0.5, 0.95)):
                if not ((unit_iv[b][0] <= unit_iv[a][0]).all() and (unit_iv[a][1] <= unit_iv[b][1]).all()):
                    viol("unit-not-nested", f"{ctx}: unit interval at {a} = {unit_iv[a]} not inside interval at {b} = {unit_iv[b]}")
                if not ((agg_iv[b][0] <= agg_iv[a][0] + 1e-15).all() and (agg_iv[a][1] <= agg_iv[b][1] + 1e-15).all()):
                    viol("group-not-nested", f"{ctx}: group interval at {a} = {agg_iv[a]} not inside interval at {b} = {agg_iv[b]}")
            cov["draw_matrices"] += 1
    return runs, nontrivial


def _scen(case, cov, viol):
    office = case["office"]
    units = E.background(case["seed"], office, 18 if office == "G" else 24, "AABB", partial=0)
    if case["bg"] == "extreme":
        for i, u in enumerate(units):
            t = u["b_turnout"]
            hi = int(t * 0.975)
            u["b_dem"], u["b_gop"] = (hi, t - hi - 1) if i % 2 else (t - hi - 1, hi)
            u["r_dem"], u["r_gop"] = (u["r_turnout"], 0) if i % 3 else (0, u["r_turnout"])
    d = ["1", "10", "2", "1", "10", "2"]
    for k, (loc, pev) in enumerate([("pop0", 0.0), ("pop1", 20.0), ("newstate", 60.0), ("pop0", 95.0), ("pop1", 55.0), ("pop0", 50.0)]):
        p = E.make_probe(case["seed"], k, "nonrep_partial", loc, office, d[k] if office == "H" else None, weights="twoparty")
        p["pev"] = pev
        if pev == 0.0:
            p["r_dem"] = p["r_gop"] = p["r_turnout"] = 0
        if case["bg"] == "extreme":
            p["b_dem"], p["b_gop"] = int(p["b_turnout"] * 0.97), int(p["b_turnout"] * 0.02)
            p["r_gop"] = 0
        units.append(p)
    # a county that consists of one blocklisted unit without any votes yet: predicted two-party turnout 0, margin 0/0
    z = E.make_probe(case["seed"], 9, "unit_blocklisted", "newcounty", office, "2" if office == "H" else None, weights="twoparty")
    z.update(id=z["id"].replace("AAcN", "AAcZ"), county="AAcZ", pev=0.0, r_dem=0, r_gop=0, r_turnout=0)
    units.append(z)
    # a county that consists of one tiny, one-sided outstanding unit (a handful of votes): rounding of vote counts is as
    # large as the normalised quantities themselves
    t = E.make_probe(case["seed"], 8, "nonrep_partial", "newcounty", office, "1" if office == "H" else None, weights="twoparty")
    t.update(id=t["id"].replace("AAcN", "AAcT"), county="AAcT", pev=0.0, r_dem=0, r_gop=0, r_turnout=0, b_dem=0, b_gop=6, b_turnout=7)
    units.append(t)
    # counties that are almost completely counted (one unit each, 99 / 97 percent in): what is left to estimate is smaller
    # than the minimal half-width 0.001 that every interval gets - the place where nesting across levels is decided by
    # how the bounds are pushed apart, not by the quantiles
    for k, pev in enumerate((99.0, 97.0, 99.5)):
        a = E.make_probe(case["seed"], 11 + k, "reporting", "newcounty", office, "10" if office == "H" else None, weights="twoparty")
        a.update(id=a["id"].replace("AAcN", f"AAcA{k}"), county=f"AAcA{k}", pev=pev)
        units.append(a)
    # a classification that has completely reported (its interval is as narrow as it gets) and contains a large, lopsided
    # unit outside the model: prediction and interval of the group must be built from the same set of units
    for i, u in enumerate(u for u in units if u["role"] == "bg" and u["postal"] == "AA"):
        if i < 3:
            u["cls"] = "s"
    o = E.make_probe(case["seed"], 7, "unit_blocklisted", "pop0", office, "1" if office == "H" else None, weights="twoparty")
    two = o["b_dem"] + o["b_gop"]
    o.update(cls="s", r_dem=int(two * 1.5), r_gop=int(two * 0.1), r_turnout=int(two * 1.6) + 5)
    units.append(o)
    # classification names that contain the character used to join group keys, next to one that continues the same word
    for u in units:
        u["cls"] = {"r": "no_va", "u": "no-valley"}.get(u["cls"], u["cls"])
    mp = {"B": case["B"]}
    if case["lambda"] is not None:
        mp["lambda_"] = case["lambda"]
    if case.get("evb") is not None:
        mp["percent_expected_vote_error_bound"] = case["evb"]
        cov["runs_with_configured_expected_vote_error_bound"] += 1
    aggs = ["postal_code", "county_fips", "county_classification", "unit"] if office == "G" else ["postal_code", "district", "county_fips", "county_classification", "unit"]
    cfg = E.make_cfg(office=office, pi_method="bootstrap", estimands=["margin"], features=["baseline_normalized_margin"], alphas=list(ALPHAS), aggregates=aggs, model_parameters=mp,
                     fixed_effects={"county_classification": ["all"]} if case["fe"] else {})
    res = E.run_estimates(units, cfg)
    if "error" in res:
        viol(f"run-raised:{res['error'][0]}", f"{case}: {res['error']}")
        return 1, True
    for tname, tab in res["ok"].items():
        for r in E.tab_rows_num(tab):
            ident = r.get("geographic_unit_fips") or tuple(r.get(c) for c in ("postal_code", "district", "county_fips", "county_classification") if c in r)
            if tname != "unit_data":
                if r.get("county_fips") == "AAcZ":
                    cov["zero_turnout_groups"] += 1
                if r.get("county_fips") == "AAcT":
                    cov["tiny_one_sided_groups"] += 1
                if r.get("county_classification") == "s":
                    cov["complete_classification_groups"] += 1
                if str(r.get("county_fips", "")).startswith("AAcA"):
                    cov["almost_complete_groups"] += 1
                if not (-1.0 <= r["pred_margin"] <= 1.0):
                    viol("group-margin-out-of-range", f"{case}: {tname} {ident} pred_margin={r['pred_margin']}")
                if not r["pred_turnout"] >= 0:
                    viol("negative-turnout", f"{case}: {tname} {ident} pred_turnout={r['pred_turnout']}")
                for a in ALPHAS:
                    if not (r[f"lower_{a}_margin"] < r["pred_margin"] < r[f"upper_{a}_margin"]):
                        viol("group-pred-not-inside", f"{case}: {tname} {ident} alpha={a}: {r[f'lower_{a}_margin']} {r['pred_margin']} {r[f'upper_{a}_margin']}")
                cov["scen_group_rows"] += 1
            else:
                for a in ALPHAS:
                    if not r[f"lower_{a}_margin"] <= r[f"upper_{a}_margin"]:
                        viol("unit-lower-above-upper", f"{case}: unit {ident} alpha={a}")
                if not r["pred_turnout"] >= 0:
                    viol("negative-turnout", f"{case}: unit {ident} pred_turnout={r['pred_turnout']}")
                if r["pred_turnout"] > 0 and abs(r["pred_margin"]) > r["pred_turnout"] * (1 + 1e-9):
                    viol("unit-margin-exceeds-turnout", f"{case}: unit {ident} |pred_margin| {r['pred_margin']} > pred_turnout {r['pred_turnout']}")
                cov["scen_unit_rows"] += 1
            for a, b in ((0.5, 0.8), (0.8, 0.95)):
                if not (r[f"lower_{b}_margin"] <= r[f"lower_{a}_margin"] + 1e-15 and r[f"upper_{a}_margin"] <= r[f"upper_{b}_margin"] + 1e-15):
                    viol("not-nested", f"{case}: {tname} {ident}: interval at {a} not inside interval at {b}")
    if case["bg"] == "extreme":
        cov["extreme_runs"] += 1
    return 1, True


def _pres(case, cov, viol):
    import pandas as pd

    from .. import fakes
    from ..env import S3_ROOT

    sign = case["sign"]
    units = E.background(case["seed"], "G", 18, "AABB", partial=0)
    probes = []
    for k in range(3):
        p = E.make_probe(case["seed"], k, "nonrep_partial", "pop0" if k < 2 else "newstate", weights="twoparty")
        p["pev"] = case["pev"]
        probes.append(p)
    # probe 0: (almost) one-party county; counted so far 99.5% for one side
    p0 = probes[0]
    two = p0["b_dem"] + p0["b_gop"]
    big = int(two * 0.98)
    p0["b_dem"], p0["b_gop"] = (big, two - big) if sign > 0 else (two - big, big)
    c2 = int(two * case["pev"] / 100)
    cb = int(c2 * 0.995)
    p0["r_dem"], p0["r_gop"] = (cb, c2 - cb) if sign > 0 else (c2 - cb, cb)
    p0["r_turnout"] = c2 + 2
    units += probes
    for u in units:  # county-type units: the id is the county, no underscore
        u["id"] = u["id"].replace("_", "")
        u["county"] = u["id"]
    rows_b, rows_r, rows_p = [], [], []
    for u in units:
        final_two = max(1, int((u["b_dem"] + u["b_gop"]) * 1.05))
        if u["pev"] >= 100:
            m_final = (u["r_dem"] - u["r_gop"]) / max(1, u["r_dem"] + u["r_gop"])
        else:
            m_final = (u["b_dem"] - u["b_gop"]) / max(1, u["b_dem"] + u["b_gop"])
        counted_w = int(final_two * u["pev"] / 100)
        pred_m, counted_m = m_final - 0.02, m_final - 0.02
        if u is p0:
            pred_m, counted_m = sign * 0.97, sign * 0.93  # the down-ballot race runs 6 points ahead in the counted votes
        rows_b.append({"postal_code": u["postal"], "geographic_unit_fips": u["id"], "baseline_dem": u["b_dem"], "baseline_gop": u["b_gop"]})
        rows_r.append({"geographic_unit_fips": u["id"], "results_weights": counted_w})
        rows_p.append({"postal_code": u["postal"], "geographic_unit_fips": u["id"], "pred_margin": pred_m * final_two, "pred_turnout": final_two, "results_margin": counted_m * counted_w})
    base = f"{S3_ROOT}/{E.ELECTION_ID}"
    fakes.S3_STORE.clear()
    fakes.S3_STORE.update(
        {
            f"{base}/data/P/data_county.csv": pd.DataFrame(rows_b).to_csv(index=False),
            f"{base}/results/P/county/current.csv": pd.DataFrame(rows_r).to_csv(index=False),
            f"{base}/predictions/P/county/unit_data/current.csv": pd.DataFrame(rows_p).to_csv(index=False),
        }
    )
    cfg = E.make_cfg(office="G", unit_type="county", pi_method="bootstrap", estimands=["margin"], features=["baseline_normalized_margin"], alphas=list(ALPHAS),
                     aggregates=["postal_code", "county_fips", "unit"], model_parameters={"B": case["B"], "lambda_": 1.0, "correct_from_presidential": True})
    try:
        res = E.run_estimates(units, cfg)
    finally:
        fakes.S3_STORE.clear()
    if "error" in res:
        viol(f"run-raised:{res['error'][0]}", f"{case}: {res['error']} {res.get('tb', '')[-300:]}")
        return 1, True
    for tname in ("state_data", "county_data"):
        for r in E.tab_rows_num(res["ok"][tname]):
            ident = tuple(r.get(c) for c in ("postal_code", "county_fips") if c in r)
            if not (-1.0 <= r["pred_margin"] <= 1.0):
                viol("group-margin-out-of-range", f"{case}: {tname} {ident} pred_margin={r['pred_margin']} (presidential correction)")
            if not r["pred_turnout"] >= 0:
                viol("negative-turnout", f"{case}: {tname} {ident} pred_turnout={r['pred_turnout']}")
            for a in ALPHAS:
                if not (r[f"lower_{a}_margin"] < r["pred_margin"] < r[f"upper_{a}_margin"]):
                    viol("group-pred-not-inside", f"{case}: {tname} {ident} alpha={a}")
    own = [r for r in E.tab_rows(res["ok"]["county_data"]) if r["county_fips"] == p0["id"]]
    if own and abs(own[0]["pred_margin"]) > 0.9:
        cov["presidential_correction_at_the_clip"] += 1
    cov["presidential_runs"] += 1
    return 1, True


def evaluate(case):
    cov = Counter()
    V = []

    def viol(kind, msg):
        if not any(v["sig"] == f"C06:{kind}" for v in V):
            V.append({"sig": f"C06:{kind}", "msg": str(msg)[:900]})

    runs, nontrivial = {"ranks": _ranks, "draws": _draws, "scen": _scen, "pres": _pres}[case["kind"]](case, cov, viol)
    out = {"violations": V, "cov": dict(cov), "outcome": sha([v["sig"] for v in V] + [case["kind"]]), "nontrivial": nontrivial, "transitions": max(1, runs)}
    if case["kind"] == "ranks":
        out["n_states"] = runs
    return out


REQUIRED_COUNTERS = {"rank_states": 1000000, "draw_matrices": 10000, "scen_group_rows": 100, "extreme_runs": 5, "zero_turnout_groups": 10, "tiny_one_sided_groups": 10, "complete_classification_groups": 10, "almost_complete_groups": 30, "presidential_runs": 4, "presidential_correction_at_the_clip": 2}
