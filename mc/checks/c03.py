"""C03 - counted votes are a floor; reported units are final (E-SCEN)."""
import math
from collections import Counter

from .. import election as E
from .. import refmodel as R
from .. import scen as S
from ..runner import sha

PROPERTY = "C03"
LEVEL = "model_checking"
RULE = (
    "every scenario holds a probe whose partial count is 9x its baseline (exceeds prediction, both unit bounds and the "
    "gaussian aggregate bound) in a populated / probe-only county / probe-only state, crossed with every other probe "
    "(status x location), nonparametric and gaussian estimators, alphas {0.5,0.9}, one and two estimands, with and "
    "without a covariate; gaussian group structures that mix own calibration models and fallbacks (63 structures of C15) with exceeding partial counts in every group; plus fully reporting elections and bootstrap runs. Oracle: pred/lower/upper >= counted, finite "
    "integers, passthrough and reporting units pred=lower=upper=counted, groups without outstanding units zero width. "
    "non-trivial = the floor was the binding term at at least one enforcement site in the scenario"
)
ASSUMPTIONS = [
    "no claim lower <= pred <= upper is made for the gaussian estimator (the statement makes none)",
    "floor 'binding' is recognised by value == counted votes on a unit/group that has outstanding units with a positive partial count",
]
SELFCHECK_INDEX = 11


def bounds(tier):
    return {"probes_k": "2 (one is always the exceeding probe)" if tier == "quick" else "2 and 3", "alphas": [0.5, 0.9], "estimators": ["nonparametric", "gaussian", "bootstrap (reported-unit clause)"]}


def _cfg(setup, agg, policy, est, feats, alphas):
    cfg = S.cfg_for(setup, agg, policy, 100)
    cfg["estimands"] = est
    cfg["features"] = feats
    cfg["alphas"] = alphas
    return cfg


def cases(tier, seed):
    out = []
    others = S.probe_types(statuses=[s for s in S.PROBE_STATUSES if s not in ("tf_at_lower", "tf_below")])
    for eloc in ("pop0", "newcounty", "newstate"):
        for i, other in enumerate(others):
            probes = [["nonrep_exceed", eloc], list(other)]
            for setup, n in (("np1", 24), ("ga1", 16)):
                variants = [(["turnout"], [], [0.5, 0.9]), (["turnout", "dem"], [E.FEATURE], [0.9])]
                if tier == "quick":
                    variants = [variants[i % 2]]
                for est, feats, alphas in variants:
                    for policy in ("drop", "zero") if tier == "thorough" else (["drop", "zero"][i % 2],):
                        out.append(dict(seed=seed, bg=dict(n=n, layout="AA2", partial=1), probes=probes, cfg=_cfg(setup, "all", policy, est, feats, alphas)))
    # fully reporting elections (all groups zero width), with passthrough units present
    for other in S.probe_types(statuses=["reporting", "unexpected", "zero_baseline", "unit_blocklisted", "tf_above"]):
        for setup, n in (("np1", 24), ("ga1", 16)):
            out.append(dict(seed=seed, bg=dict(n=n, layout="AA2", partial=0), probes=[list(other)], cfg=_cfg(setup, "all", "drop", ["turnout"], [], [0.5, 0.9])))
    # bootstrap: reported / unexpected / non-modelled units carry their counted margin
    for other in S.probe_types(statuses=["reporting", "unexpected", "zero_baseline", "unit_blocklisted", "tf_above", "nonrep_partial"]):
        for agg in ("all", "pc"):
            out.append(dict(seed=seed, bg=dict(n=16, layout="AA2", partial=2), probes=[list(other)], cfg=S.cfg_for("bs1", agg, "drop", 100)))
    # gaussian, groups mixing own calibration models and fallbacks (C15's structures): every outstanding unit's partial
    # count exceeds any bound, so the aggregate floor binds in every group
    import itertools

    for pat in (["A", "A", "B"], ["A", "A", "A"], ["A", "B"]):
        for cs in itertools.product([0, 9, 10], repeat=len(pat)):
            out.append({"structure": {"pattern": pat, "counts": list(cs), "outstanding": [True] * len(pat), "seed": seed}, "seed": seed})
    # district office: unit ids sort '10_...' < '1_...' < '2_...' while district keys sort '1' < '10' < '2', so rows of
    # outstanding units do not arrive in group-key order; exceeding partial counts in all three districts
    for setup, n in (("np1", 30), ("ga1", 30)):
        for agg in ("pc_d", "pc_d_cf"):
            for combo in (("1", "10", "2"), ("10", "2", "2"), ("2", "1", "1")):
                probes = [["nonrep_exceed", "pop0", combo[0]], ["nonrep_exceed", "pop1", combo[1]], ["nonrep_partial", "newcounty", combo[2]]]
                cfg = S.cfg_for(setup, agg, "drop", 100, office="H")
                cfg["alphas"] = [0.5, 0.9] if setup == "ga1" else [0.5, 0.9]
                out.append(dict(seed=seed, bg=dict(n=n, layout="AA2", partial=3), probes=probes, cfg=cfg))
    # the feed leaves a result column that is *not* a requested estimand empty for a fully reported unit (and for an
    # outstanding one): the unit's status and its requested counts are unaffected, under either policy
    for policy in ("zero", "drop"):
        for setup, n in (("np1", 24), ("ga1", 16)):
            # ... and a half-delivered row: one of two requested counts is in, the other still missing
            for est, blank in ((["turnout"], ["gop"]), (["turnout"], ["gop", "dem"]), (["turnout", "dem"], ["gop"]), (["turnout", "dem"], ["dem"]), (["dem", "turnout"], ["turnout"])):
                for loc in ("pop0", "newcounty"):
                    out.append(dict(seed=seed, bg=dict(n=n, layout="AA2", partial=1), probes=[["reporting", loc], ["nonrep_partial", "pop1"]], blank=blank, cfg=_cfg(setup, "all", policy, est, [], [0.5, 0.9])))
    # more votes counted than expected: a reporting unit at 104 percent is still a reporting unit
    for policy in ("zero", "drop"):
        for setup, n in (("np1", 24), ("ga1", 16)):
            for loc in ("pop0", "newcounty"):
                out.append(dict(seed=seed, bg=dict(n=n, layout="AA2", partial=1), probes=[["reporting", loc], ["nonrep_partial", "pop1"]], over100=True, cfg=_cfg(setup, "all", policy, ["turnout"], [], [0.5, 0.9])))
    if tier == "thorough":
        t3 = S.probe_types(statuses=["nonrep_partial", "unexpected", "zero_baseline", "nonrep_exceed", "missing"], locations=["pop0", "newcounty", "newstate"])
        for pr in S.multisets(t3, 2):
            for eloc in ("pop0", "newcounty"):
                for setup, n in (("np1", 24), ("ga1", 16)):
                    out.append(dict(seed=seed, bg=dict(n=n, layout="AA2", partial=1), probes=[["nonrep_exceed", eloc]] + [list(p) for p in pr], cfg=_cfg(setup, "all", "zero", ["turnout"], [], [0.5, 0.9])))
    return S.rotate_row_orders(out)


def describe(case):
    if "structure" in case:
        return case
    return {"probes": case["probes"], "bg": case["bg"], "cfg": {k: case["cfg"][k] for k in ("pi_method", "estimands", "features", "aggregates", "alphas", "policy")}, "input_row_order": case["cfg"].get("row_order") or "sorted"}


def _structure_units(case):
    from . import c15

    units, groups, cal_pos, train = c15.build(case["structure"])
    for k, u in enumerate(u for u in units if u["id"].startswith("v")):
        u["pev"] = 40.0
        f = 9 if k % 2 == 0 else 3
        u["r_dem"], u["r_gop"], u["r_turnout"] = f * u["b_dem"], f * u["b_gop"], f * u["b_turnout"]
    cfg = E.make_cfg(pi_method="gaussian", estimands=["turnout"], alphas=[0.5, 0.9], aggregates=["postal_code", "county_fips", "unit"], features=[])
    return units, cfg


def _whole(x):
    return isinstance(x, (int, float)) and not isinstance(x, bool) and math.isfinite(x) and float(x) == math.floor(float(x))


def evaluate(case):
    cov = Counter()
    if "structure" in case:
        units, cfg = _structure_units(case)
        cov["mixed_model_structures"] += 1
    else:
        units = S.build_units(case)
        cfg = case["cfg"]
        if case.get("over100"):
            [u for u in units if u["role"] == "probe"][0]["pev"] = 104.0
            cov["runs_with_unit_above_100_percent"] += 1
        if case.get("blank"):
            for u in units:
                if u["role"] == "probe":
                    u["nan_cols"] = list(case["blank"])
            cov["runs_with_blank_non_estimand_column"] += 1
    pm = cfg["pi_method"]
    res = E.run_estimates(units, cfg)
    V = []

    def viol(kind, msg):
        V.append({"sig": f"C03:{kind}:{pm}", "msg": msg})

    if "error" in res:
        cov["runs_raised_" + res["error"][0]] += 1
        return {"violations": V, "cov": dict(cov), "outcome": "error:" + res["error"][0], "nontrivial": False, "note": res}
    cov["runs_completed"] += 1
    tables = res["ok"]
    cats = R.categorize(units, cfg)
    urows = {r["geographic_unit_fips"]: r for r in E.tab_rows(tables["unit_data"])}
    binding = 0
    if pm == "bootstrap":
        for uid, r in urows.items():
            c = cats.get(uid)
            if c is None or c["kind"] == "predict":
                continue
            vals = [r["pred_margin"]] + [r[f"{b}_{a}_margin"] for a in cfg["alphas"] for b in ("lower", "upper")]
            if any(float(v) != float(r["results_margin"]) for v in vals):
                viol("reported-unit-not-final", f"unit {uid} ({c['category']}): {vals} != counted margin {r['results_margin']}")
            cov["bootstrap_final_units"] += 1
        uniq = {v["sig"]: v for v in V}
        return {"violations": list(uniq.values()), "cov": dict(cov), "outcome": sha(tables["unit_data"]["rows"])[:16], "nontrivial": True}

    for e in cfg["estimands"]:
        cols = [f"pred_{e}"] + [f"{b}_{a}_{e}" for a in cfg["alphas"] for b in ("lower", "upper")]
        for uid, r in urows.items():
            c = cats.get(uid)
            if c is None:
                continue
            counted = r[f"results_{e}"]
            for col in cols:
                v = r[col]
                if not _whole(v):
                    viol("not-whole", f"unit {uid} {col}={v}")
                elif v < counted:
                    viol("below-floor-unit", f"unit {uid} {col}={v} < counted {counted}")
                elif c["kind"] != "predict" and float(v) != float(counted):
                    viol("reported-unit-not-final", f"unit {uid} ({c['category']}, reporting={c['reporting']}) {col}={v} != counted {counted}")
                elif c["kind"] == "predict" and counted > 0 and float(v) == float(counted):
                    site = "unit_pred" if col.startswith("pred") else ("unit_lower" if col.startswith("lower") else "unit_upper")
                    cov["floor_binding_" + site] += 1
                    binding += 1
            cov["unit_rows"] += 1
        for level in [a for a in cfg["aggregates"] if a != "unit"]:
            tname = R.LEVEL_TABLE[level]
            kcols, ref = R.groups(units, cfg, cats, level)
            for r in E.tab_rows(tables[tname]):
                key = tuple(r.get(c) for c in kcols)
                g = ref.get(key)
                counted = r[f"results_{e}"]
                for col in cols:
                    v = r[col]
                    if not _whole(v):
                        viol("not-whole", f"{tname} {key} {col}={v}")
                    elif v < counted:
                        viol("below-floor-group", f"{tname} {key} {col}={v} < counted {counted}")
                    elif g is not None and e in g.get("results", {}) and v < g["results"][e]:
                        # the floor is what the feed says has been counted in the group, not what the table repeats
                        viol("below-feed-floor-group", f"{tname} {key} {col}={v} < {g['results'][e]} votes counted in the feed for the units of this group (the table's own results column says {counted})")
                    elif g is not None and not g["predict"] and float(v) != float(counted):
                        viol("zero-width", f"{tname} {key} has no outstanding unit but {col}={v} != counted {counted}")
                    elif g is not None and g["predict"] and float(v) == float(counted) and any(R.result_value(cats[u]["eff"], e) > 0 for u in g["predict"]):
                        if pm == "gaussian" and not col.startswith("pred"):
                            cov["floor_binding_agg_" + ("lower" if col.startswith("lower") else "upper")] += 1
                            binding += 1
                if g is not None and not g["predict"]:
                    cov["zero_width_groups"] += 1
                cov["group_rows"] += 1
    uniq = {}
    for v in V:
        uniq.setdefault(v["sig"], v)
    return {"violations": list(uniq.values()), "cov": dict(cov), "outcome": sha({k: v["rows"] for k, v in tables.items()})[:16], "nontrivial": binding > 0}


REQUIRED_COUNTERS = {
    "floor_binding_unit_pred": 20,
    "floor_binding_unit_lower": 20,
    "floor_binding_unit_upper": 20,
    "floor_binding_agg_lower": 10,
    "floor_binding_agg_upper": 5,
    "zero_width_groups": 50,
    "bootstrap_final_units": 50,
    "mixed_model_structures": 20, "runs_with_blank_non_estimand_column": 20,
}
