"""C13 - what is reported for one request does not depend on what else was requested."""
import itertools
from collections import Counter, defaultdict

from .. import election as E
from .. import scen as S
from ..runner import sha

PROPERTY = "C13"
LEVEL = "model_checking"
ENGINE = "E-SCEN"
TECHNIQUE = "exhaustive enumeration of request sets (every ordered sub-list of estimands, interval levels and aggregate levels) on the real client; relational oracle: every (estimand, level, group, alpha, column) cell has one bit pattern across all runs that contain it"
RULE = (
    "one election with a complete feed (24 reporting units, outstanding units in several groups, passthrough units present) per estimator; every "
    "ordered non-empty sub-list of estimands {turnout, dem} (4), of interval levels {0.7, 0.9} (4) and of aggregate levels {postal_code, county_fips, "
    "county_classification} (15), with and without the unit table: 480 runs each for nonparametric and gaussian, 120 for bootstrap (margin only); the historical client over every ordered estimand sub-list; every ordered sub-list of the close "
    "interval levels {0.9, 0.99, 0.995} for gaussian and bootstrap; "
    "a district-office election with levels {postal_code, district, county_fips}. Oracle: each cell has exactly one value over all runs that report it "
    "(compared on the repr of the double), and every table has exactly the key/category columns of the singleton request. non-trivial = the run "
    "requests more than one estimand, level or interval level"
)
ASSUMPTIONS = ["values are compared exactly (shortest round-trip repr of each double; NaN equals NaN)"]
SELFCHECK_INDEX = 5
VALUE_PREFIX = ("pred_", "results_", "lower_", "upper_")


def _sublists(items):
    out = []
    for r in range(1, len(items) + 1):
        out += [list(p) for p in itertools.permutations(items, r)]
    return out


def bounds(tier):
    return {"estimand_sublists": 4, "alpha_sublists": 4, "level_sublists": 15, "unit_table": [True, False], "district_office": "levels postal_code/district/county_fips, 1-2 estimands"}


def cases(tier, seed):
    out = []
    levels = _sublists(["postal_code", "county_fips", "county_classification"])
    for setup, pm in (("np", "nonparametric"), ("ga", "gaussian")):
        for est in _sublists(["turnout", "dem"]):
            for alphas in _sublists([0.7, 0.9]):
                for lv in levels:
                    for unit in (True, False):
                        out.append({"pm": pm, "office": "G", "estimands": est, "alphas": alphas, "aggregates": lv + (["unit"] if unit else []), "seed": seed})
    for alphas in _sublists([0.7, 0.9]):
        for lv in levels:
            for unit in (True, False):
                out.append({"pm": "bootstrap", "office": "G", "estimands": ["margin"], "alphas": alphas, "aggregates": lv + (["unit"] if unit else []), "seed": seed})
    # interval levels that are close together (equal when rounded to two decimals), singly and together, both orders
    for pm in ("gaussian", "bootstrap"):
        for alphas in _sublists([0.9, 0.99, 0.995]):
            for lv in (["postal_code"], ["postal_code", "county_classification"], ["county_fips", "postal_code"]):
                out.append({"pm": pm, "office": "G", "estimands": ["margin"] if pm == "bootstrap" else ["turnout"], "alphas": alphas, "aggregates": lv + ["unit"], "seed": seed})
    # ... on an election built so that the two levels provably give different quantile fits: 200 equal-weight training
    # units put a breakpoint of the weighted quantile (k/200) between the fitted quantiles 0.008 and 0.012
    for alphas in _sublists([0.976, 0.984]):
        out.append({"pm": "gaussian", "office": "G", "election": "equal286", "estimands": ["turnout"], "alphas": alphas, "aggregates": ["postal_code", "county_fips", "unit"], "seed": seed})
    # two states, one of them small: its gaussian model falls back to the model over all units, at every level
    for est in _sublists(["turnout", "dem"]):
        for alphas in _sublists([0.7, 0.9]):
            for lv in (["postal_code"], ["postal_code", "county_fips"], ["county_fips", "postal_code"]):
                out.append({"pm": "gaussian", "office": "G", "election": "smallstate", "estimands": est, "alphas": alphas, "aggregates": lv + ["unit"], "seed": seed})
    # some reporting units have no classification (missing group key): every ordered aggregate list
    for alphas in ([0.7], [0.7, 0.9]):
        for lv in levels:
            out.append({"pm": "gaussian", "office": "G", "election": "nocls", "estimands": ["turnout"], "alphas": alphas, "aggregates": lv + ["unit"], "seed": seed})
    # a reporting and an outstanding unit without a single baseline vote for one of the two estimands (turnout normal)
    for pm in ("nonparametric", "gaussian"):
        for est in _sublists(["turnout", "dem"]):
            for lv in (["postal_code"], ["postal_code", "county_fips"]):
                out.append({"pm": pm, "office": "G", "election": "nodem", "estimands": est, "alphas": [0.7, 0.9], "aggregates": lv + ["unit"], "seed": seed})
    # the historical client: every ordered sub-list of estimands, aggregate sub-lists
    for pm in ("nonparametric", "gaussian"):
        for est in _sublists(["turnout", "dem"]):
            for lv in (["postal_code"], ["postal_code", "county_fips"], ["county_fips"]):
                out.append({"pm": pm, "office": "G", "election": "historical", "estimands": est, "alphas": [0.7], "aggregates": lv, "seed": seed})
    hlevels = _sublists(["postal_code", "district", "county_fips"])
    for pm in ("nonparametric", "bootstrap") if tier == "quick" else ("nonparametric", "gaussian", "bootstrap"):
        for est in (_sublists(["turnout", "dem"]) if pm != "bootstrap" else [["margin"]]):
            for lv in hlevels:
                out.append({"pm": pm, "office": "H", "estimands": est, "alphas": [0.7], "aggregates": lv + ["unit"], "seed": seed})
    return out


def describe(case):
    return case


def _election_equal(case):
    import random

    rng = random.Random(case["seed"] + 286)
    units = []
    for i in range(286):
        t = 1000
        r = int(t * (0.7 + 0.6 * rng.random()))
        units.append(E.make_unit(f"AAc{i % 3}_e{i:03d}", "AA", f"AAc{i % 3}", "r", None, (450, 500, t), (r // 2, r // 3, r), 100.0, 0.0))
    for j in range(6):
        units.append(E.make_unit(f"AAc{j % 3}_o{j}", "AA", f"AAc{j % 3}", "r", None, (450, 500, 1000), (0, 0, 0), 0.0, 0.0))
    return units


def _election(case):
    if case.get("election") == "equal286":
        return _election_equal(case)
    if case.get("election") == "nocls":
        units = E.background(case["seed"], "G", 30, "AA2", partial=3)
        for i, u in enumerate(units):
            if i % 5 == 2:
                u["cls"] = None
        return units
    if case.get("election") == "nodem":
        units = E.background(case["seed"], "G", 30, "AA2", partial=3)
        for u in (units[4], units[-1]):  # one reporting, one outstanding
            u["b_dem"] = 0
            u["b_gop"] = u["b_turnout"] - 10
        return units
    if case.get("election") == "smallstate":
        units = E.background(case["seed"], "G", 40, "AA2", partial=3)
        for k, st in enumerate(["reporting", "reporting", "reporting", "nonrep_partial", "nonrep0"]):
            u = E.make_probe(case["seed"], 20 + k, st, "newstate")
            u["id"] = f"BBc0_s{k}"
            units.append(u)
        return units
    office = case["office"]
    pm = case["pm"]
    w = "twoparty" if pm == "bootstrap" else "turnout"
    units = E.background(case["seed"], office, 24, "AA2", partial=3)
    d = ("1", "10", "2") if office == "H" else (None, None, None)
    units += [
        E.make_probe(case["seed"], 0, "nonrep_partial", "pop0", office, d[0], weights=w),
        E.make_probe(case["seed"], 1, "nonrep0", "pop1", office, d[1], weights=w),
        E.make_probe(case["seed"], 2, "nonrep_partial", "newcounty", office, d[2], weights=w),
        E.make_probe(case["seed"], 3, "unexpected", "pop1", office, d[0], weights=w),
        E.make_probe(case["seed"], 4, "zero_baseline", "pop0", office, d[1], weights=w),
    ]
    return units


def _historical(case):
    import json
    import os
    import shutil
    import tempfile

    from elexmodel.client import HistoricalModelClient

    from . import c10

    units = E.background(case["seed"], "G", 16, "AA2") + [E.make_probe(case["seed"], k, "nonrep0", loc) for k, loc in enumerate(["pop0", "pop1"])]
    cfg = E.make_cfg(estimands=case["estimands"], pi_method=case["pm"], alphas=[0.7])
    rc = E.raw_config(cfg)
    rc[E.ELECTION_ID][0]["historical_election"] = [c10.HIST_ID]
    hist_cfg = {c10.HIST_ID: [dict(rc[E.ELECTION_ID][0], historical_election=[])]}
    baseline, feed = E.frames(units, cfg)
    df = baseline.copy()
    df["results_turnout"] = (df.baseline_turnout * 1.1).astype(int)
    df["results_dem"] = (df.baseline_dem * 1.3).astype(int)
    df["results_gop"] = (df.baseline_gop * 0.9).astype(int)
    scratch = tempfile.mkdtemp(prefix="mc_c13_")
    cwd0 = os.getcwd()
    try:
        os.chdir(scratch)
        os.makedirs("config")
        os.makedirs(f"data/{c10.HIST_ID}/G")
        json.dump(rc, open(f"config/{E.ELECTION_ID}.json", "w"))
        json.dump(hist_cfg, open(f"config/{c10.HIST_ID}.json", "w"))
        df.to_csv(f"data/{c10.HIST_ID}/G/data_precinct.csv", index=False)
        out = HistoricalModelClient().get_historical_evaluation(
            feed, E.ELECTION_ID, "G", list(case["estimands"]), [0.7], 100, "precinct", aggregates=list(case["aggregates"]), pi_method=case["pm"], save_output=[],
            features=[E.FEATURE], model_parameters={"fit_margin_outlier_model": False, "fit_turnout_outlier_model": False},
        )
        return {"ok": {k: E.table_to_obj(v) for k, v in out[c10.HIST_ID]["estimates"].items()}}
    except Exception as e:
        return {"error": [type(e).__name__, str(e)[:300]]}
    finally:
        os.chdir(cwd0)
        shutil.rmtree(scratch, ignore_errors=True)


def evaluate(case):
    cov = Counter()
    if case.get("election") == "historical":
        res = _historical(case)
        pm = case["pm"]
        cov["historical_runs"] += 1
        return _cells(case, res, pm, cov)
    units = _election(case)
    pm = case["pm"]
    feats = ["baseline_normalized_margin"] if pm == "bootstrap" else ([] if case.get("election") else [E.FEATURE])
    mp = {"B": 10, "lambda_": 1.0} if pm == "bootstrap" else {}
    cfg = E.make_cfg(office=case["office"], pi_method=pm, estimands=case["estimands"], alphas=case["alphas"], aggregates=case["aggregates"], features=feats, model_parameters=mp)
    res = E.run_estimates(units, cfg)
    return _cells(case, res, pm, cov)


def _cells(case, res, pm, cov):
    if "error" in res:
        return {"violations": [{"sig": f"C13:run-raised:{pm}:{res['error'][0]}", "msg": f"{case}: {res['error']}"}], "cov": {}, "outcome": "error", "nontrivial": True, "data": {"cells": {}, "keycols": {}}}
    cells = {}
    keycols = {}
    for tname, tab in res["ok"].items():
        cols = tab["columns"]
        kc = [c for c in cols if not c.startswith(VALUE_PREFIX)]
        keycols[tname] = kc
        idcols = [c for c in kc if c not in ("reporting",) and not c.startswith("unit_category")]
        for row in tab["rows"]:
            r = dict(zip(cols, row))
            key = "|".join(str(r[c]) for c in idcols)
            for c in cols:
                if c in idcols:
                    continue
                cells[f"{tname}|{key}|{c}"] = repr(r[c])
    cov["cells"] += len(cells)
    multi = len(case["estimands"]) > 1 or len(case["alphas"]) > 1 or len([a for a in case["aggregates"] if a != "unit"]) > 1
    return {"violations": [], "cov": dict(cov), "outcome": sha(cells)[:16], "nontrivial": multi, "data": {"cells": cells, "keycols": keycols}}


def post(cases, results, tier, seed):
    cov = Counter()
    viols = []
    groups = defaultdict(list)
    for i, c in enumerate(cases):
        groups[(c["pm"], c["office"], c.get("election", ""))].append(i)
    for (pm, office, _tag), idxs in groups.items():
        values = defaultdict(lambda: defaultdict(list))
        keycols = defaultdict(lambda: defaultdict(list))
        for i in idxs:
            d = results[i].get("data") or {}
            for k, v in d.get("cells", {}).items():
                values[k][v].append(i)
            for t, kc in d.get("keycols", {}).items():
                keycols[t][tuple(kc)].append(i)
        seen = set()
        for k, byval in values.items():
            cov["distinct_cells"] += 1
            if len(byval) > 1:
                cov["cells_with_conflict"] += 1
                # blame the minority run(s); reference = the value held by the most runs (ties: the smallest request)
                ranked = sorted(byval.items(), key=lambda kv: (-len(kv[1]), min(kv[1])))
                ref_val, ref_runs = ranked[0]
                for val, runs in ranked[1:]:
                    i = runs[0]
                    col = k.split("|")[-1]
                    kind = "category" if col.startswith("unit_category") or col == "reporting" else "value"
                    sig = f"C13:cell-{kind}-depends-on-request:{pm}"
                    if (sig, i) in seen:
                        continue
                    seen.add((sig, i))
                    viols.append((i, {"sig": sig, "from_post": True, "msg": f"{office} {k}: {val} in run {cases[i]} but {ref_val} in run {cases[ref_runs[0]]}"}))
        for t, bycols in keycols.items():
            if len(bycols) > 1:
                ranked = sorted(bycols.items(), key=lambda kv: (-len(kv[1]), min(kv[1])))
                for colsv, runs in ranked[1:]:
                    i = runs[0]
                    viols.append((i, {"sig": f"C13:key-columns-depend-on-request:{pm}:{office}:{t}", "from_post": True, "msg": f"{t}: key/category columns {list(colsv)} in run {cases[i]} but {list(ranked[0][0])} in run {cases[ranked[0][1][0]]}"}))
    return {"violations": viols, "cov": dict(cov)}


REQUIRED_COUNTERS = {"distinct_cells": 500, "historical_runs": 20}
