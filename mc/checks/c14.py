"""C14 - enough reporting units => estimate; too few => the dedicated error.

(a) split arithmetic, exhaustive over (alpha, n) on the real functions; (b) conformance of that arithmetic with the
implementation at the model seam on both outcomes; (c) the gate through the real client."""
import inspect
import math
import re
from collections import Counter

from .. import election as E
from .. import scen as S
from ..runner import sha

PROPERTY = "C14"
LEVEL = "model_checking"
ENGINE = "E-SEAM+E-SCEN"
TECHNIQUE = "explicit enumeration of every (alpha, n) state of the calibration-split arithmetic evaluated with the implementation's own functions/expressions, plus conformance runs of the real model and client that validate the arithmetic model on both outcomes"
RULE = (
    "(a) every alpha in {k/1000} u {0.95,0.99,0.999} x every n from the model's minimum to N_MAX: conf_frac from the real "
    "_compute_conf_frac, training rows from the implementation's own 'train_rows = ...' expression (extracted from the source and "
    "evaluated), predicate P = train>=1 and cal>=1 and alpha*(1+1/cal)<1; (b) every alpha in {k/100} x n in [2, min+12] (n<=60): the real "
    "nonparametric model on real handler frames must produce finite intervals iff P, and its observed calibration size must equal n-train; "
    "(c) real client for nonparametric/gaussian/bootstrap, n in [min-1, min+12]/[min-1,min+3], multi-alpha, non-modelled reporting units "
    "present, 1 / 3 / 5 covariates, duplicate ids (exact copy / other counts / other percent); every ordered pair of six requests of different difficulty on one long-lived client. non-trivial = the state sits within 12 units of a decision boundary (minimum, or P flips)"
)
ASSUMPTIONS = [
    "P's training-row expression is the source line of ConformalElectionModel.get_unit_prediction_interval_bounds (harness error if it cannot be extracted)",
    "a run 'completes' when it returns tables whose prediction/interval cells are all finite",
]
SELFCHECK_INDEX = 40
_TRAIN_EXPR = None
_EARLIER = []


def worker_init():
    global _TRAIN_EXPR, _EARLIER
    from elexmodel.models.ConformalElectionModel import ConformalElectionModel

    src = inspect.getsource(ConformalElectionModel.get_unit_prediction_interval_bounds)
    m = re.search(r"^\s*train_rows\s*=\s*(.+)$", src, re.M)
    if not m:
        raise RuntimeError("cannot locate the train_rows expression in get_unit_prediction_interval_bounds")
    _TRAIN_EXPR = compile(m.group(1).strip(), "<train_rows>", "eval")
    # one-line assignments of plain names that precede it: the expression may refer to such locals
    _EARLIER = []
    for line in src[: m.start()].splitlines():
        a = re.match(r"^\s*([A-Za-z_]\w*)\s*=\s*(.+)$", line)
        if a and a.group(1) not in ("conf_frac", "train_rows"):
            try:
                _EARLIER.append((a.group(1), compile(a.group(2).strip(), "<local>", "eval")))
            except SyntaxError:
                pass


def _self_stub(n):
    """the model object as the expression sees it: a real nonparametric model without covariates, n_train = n"""
    from elexmodel.models.NonparametricElectionModel import NonparametricElectionModel

    m = NonparametricElectionModel({})
    m.n_train = n
    return m


def _train_rows(n, conf_frac):
    env = {"math": math, "self": _self_stub(n), "conf_frac": conf_frac, "max": max, "min": min, "int": int, "len": len}
    try:
        return int(eval(_TRAIN_EXPR, env))
    except NameError:
        for name, expr in _EARLIER:
            try:
                env[name] = eval(expr, env)
            except Exception:
                pass
        return int(eval(_TRAIN_EXPR, env))


def _P(model, alpha, n):
    frac = model._compute_conf_frac(n, alpha) if model.__class__.__name__.startswith("Nonparametric") else model._compute_conf_frac()
    train = _train_rows(n, frac)
    cal = n - train
    ok = train >= 1 and cal >= 1 and alpha * (1 + 1 / cal) < 1
    return ok, train, cal


def bounds(tier):
    return {"alpha_grid": "k/1000, k=1..999, plus 0.95 0.99 0.999", "n_max": 2500 if tier == "quick" else 6000, "seam_alphas": "k/100 (k=1..95)", "client_n_window": "[min-1, min+12] nonparametric, [min-1, min+3] gaussian/bootstrap"}


def cases(tier, seed):
    out = []
    alphas = [k / 1000 for k in range(1, 1000)] + [0.95, 0.99, 0.999]
    nmax = 2500 if tier == "quick" else 6000
    chunk = 32
    for i in range(0, len(alphas), chunk):
        out.append({"kind": "arith", "alphas": alphas[i : i + chunk], "nmax": nmax})
    for k in list(range(1, 96)) if tier == "thorough" else list(range(5, 96, 5)) + [33, 67, 72, 88, 91, 93]:
        out.append({"kind": "seam", "alpha": k / 100, "seed": seed})
    for alpha in (0.5, 0.6, 0.7, 0.8, 0.9):
        mn = math.ceil((1 + alpha) / (1 - alpha))
        for n in range(max(2, mn - 2), mn + 13):
            for extras in (0, 2):
                if tier == "quick" and extras and n > mn + 2:
                    continue
                out.append({"kind": "client", "pm": "nonparametric", "alphas": [alpha], "n": n, "extras": extras, "seed": seed})
    for alphas_ in ([0.5, 0.7], [0.7, 0.5], [0.6, 0.8, 0.5]):
        mn = max(math.ceil((1 + a) / (1 - a)) for a in alphas_)
        for n in range(mn - 3, mn + 3):
            out.append({"kind": "client", "pm": "nonparametric", "alphas": alphas_, "n": n, "extras": 1, "seed": seed})
    for pm, mn in (("gaussian", 7), ("bootstrap", 10)):
        for n in range(mn - 2, mn + 4):
            for extras in (0, 2):
                out.append({"kind": "client", "pm": pm, "alphas": [0.7, 0.9], "n": n, "extras": extras, "seed": seed})
    # one long-lived client answers requests of different difficulty: each request is judged by its own minimum
    menu = [("nonparametric", [0.9], 25), ("nonparametric", [0.9], 12), ("nonparametric", [0.7], 12), ("gaussian", [0.7, 0.9], 9), ("nonparametric", [0.5], 4), ("bootstrap", [0.9], 12)]
    for i in range(len(menu)):
        for j in range(len(menu)):
            out.append({"kind": "client_history", "steps": [list(menu[i]), list(menu[j])], "seed": seed})
    # the feed in its documented list-of-lists form (header row first), the same list object handed to both requests
    for steps in ([("nonparametric", [0.9], 12), ("nonparametric", [0.7], 12)], [("nonparametric", [0.7], 12), ("nonparametric", [0.7], 12)], [("gaussian", [0.7, 0.9], 9), ("gaussian", [0.7], 9)], [("nonparametric", [0.5], 2), ("nonparametric", [0.5], 2)]):
        out.append({"kind": "client_history", "steps": [list(s) for s in steps], "feed_as_list": True, "seed": seed})
    # covariates do not enter the minimum: with a feature list the run must still complete at the minimum
    for pm, alphas_, mn in (("nonparametric", [0.7], 6), ("nonparametric", [0.9], 19), ("gaussian", [0.7, 0.9], 7)):
        for nfeat in (1, 3, 5):
            for n in range(mn - 1, mn + 4):
                out.append({"kind": "client", "pm": pm, "alphas": alphas_, "n": n, "extras": 0, "nfeat": nfeat, "seed": seed})
    for pm, n in (("nonparametric", 12), ("gaussian", 12), ("bootstrap", 14), ("nonparametric", 4)):
        for dup in ("exact", "other_counts", "other_percent"):
            out.append({"kind": "client", "pm": pm, "alphas": [0.7], "n": n, "extras": 0, "dup": dup, "seed": seed})
    return out


def describe(case):
    c = dict(case)
    if c["kind"] == "arith":
        c["alphas"] = f"{c['alphas'][0]}..{c['alphas'][-1]} ({len(c['alphas'])} values)"
    return c


def _finite_tables(tables):
    for name, tab in tables.items():
        cols = tab["columns"]
        for r in tab["rows"]:
            for c, v in zip(cols, r):
                if c.startswith(("pred_", "lower_", "upper_", "results_")) and (isinstance(v, str) or not math.isfinite(float(v))):
                    return False, f"{name}.{c}={v}"
    return True, ""


def _units(seed, n, extras, pm, dup=False):
    units = E.background(seed, "G", n, "AA2")
    w = "twoparty" if pm == "bootstrap" else "turnout"
    units += [E.make_probe(seed, 0, "nonrep_partial", "pop0", weights=w), E.make_probe(seed, 1, "nonrep0", "pop1", weights=w), E.make_probe(seed, 2, "nonrep0", "newcounty", weights=w)]
    if extras >= 1:
        units.append(E.make_probe(seed, 3, "zero_baseline", "pop0", weights=w))
    if extras >= 2:
        units.append(E.make_probe(seed, 4, "unexpected", "pop1", weights=w))
        units.append(E.make_probe(seed, 5, "tf_above", "pop1", weights=w))
    return units


def evaluate(case):
    cov = Counter()
    V = []
    kind = case["kind"]
    from elexmodel.models.NonparametricElectionModel import NonparametricElectionModel

    if kind == "arith":
        model = NonparametricElectionModel({})
        bad = Counter()
        examples = {}
        states = 0
        boundary = 0
        for alpha in case["alphas"]:
            mn = model.get_minimum_reporting_units(alpha)
            for n in range(mn, case["nmax"] + 1):
                ok, train, cal = _P(model, alpha, n)
                states += 1
                if n <= mn + 12:
                    boundary += 1
                if not ok:
                    why = "train_rows=0" if train < 1 else ("cal_rows=0" if cal < 1 else "quantile>=1")
                    bad[why] += 1
                    examples.setdefault(why, (alpha, n, mn, train, cal))
        for why, cnt in bad.items():
            a, n, mn, tr, cal = examples[why]
            V.append({"sig": f"C14:nonparametric:{why}", "msg": f"{cnt} (alpha,n) states at or above the minimum leave {why}; first: alpha={a} n={n} (minimum {mn}) train={tr} cal={cal}"})
        cov["arith_states"] += states
        return {"violations": V, "cov": dict(cov), "outcome": sha(sorted(bad.items())), "nontrivial": True, "transitions": states, "state": sha(case), "n_states": states}

    if kind == "seam":
        from elexmodel.handlers.data.CombinedData import CombinedDataHandler
        from elexmodel.handlers.data.PreprocessedData import PreprocessedDataHandler

        alpha = case["alpha"]
        model0 = NonparametricElectionModel({})
        mn = model0.get_minimum_reporting_units(alpha)
        outcomes = []
        runs = 0
        for n in range(2, min(mn + 12, 60) + 1):
            units = _units(case["seed"], n, 0, "nonparametric")
            cfg = E.make_cfg(estimands=["turnout"])
            baseline, feed = E.frames(units, cfg)
            pre = PreprocessedDataHandler(E.ELECTION_ID, "G", "precinct", ["turnout"], {"turnout": "turnout"}, data=baseline)
            data = CombinedDataHandler(pre.data, feed, ["turnout"], "precinct")
            rep, nonrep, _ = data.get_units(100, 0.5, 2.0, [], [], False, False, 2.0, ["postal_code"])
            assert rep.shape[0] == n
            model = NonparametricElectionModel({})
            ok, train, cal = _P(model, alpha, n)
            try:
                import warnings

                with warnings.catch_warnings():
                    warnings.simplefilter("ignore", RuntimeWarning)
                    model.get_unit_predictions(rep, nonrep, "turnout")
                    pi = model.get_unit_prediction_intervals(rep, nonrep, alpha, "turnout")
                import numpy as np

                finite = bool(np.isfinite(np.asarray(pi.lower, dtype=float)).all() and np.isfinite(np.asarray(pi.upper, dtype=float)).all())
                obs_cal = int(pi.conformalization.shape[0])
                result = "finite" if finite else "nan"
            except Exception as e:
                result = "raised:" + type(e).__name__
                obs_cal = None
            runs += 1
            outcomes.append((n, result))
            if obs_cal is not None and obs_cal != cal:
                V.append({"sig": "C14:model-mismatch:calibration-size", "msg": f"alpha={alpha} n={n}: implementation calibrated on {obs_cal} rows, arithmetic model says {cal}"})
            if cal >= 1 and abs(alpha * (1 + 1 / cal) - 1) < 1e-9:
                # float knife edge of the quantile level (only reachable below the minimum): either outcome conforms
                cov["quantile_knife_edge_skipped"] += 1
            elif ok and result != "finite":
                V.append({"sig": f"C14:nonparametric:P-holds-but-{result.split(':')[0]}", "msg": f"alpha={alpha} n={n} train={train} cal={cal}: P holds but the model gave {result}"})
                cov["P_true_failed"] += 1
            elif not ok and result == "finite":
                V.append({"sig": "C14:model-mismatch:P-false-but-finite", "msg": f"alpha={alpha} n={n} train={train} cal={cal}: P is false but the model produced finite intervals"})
            elif ok:
                cov["P_true_finite"] += 1
            else:
                cov["P_false_failed"] += 1
        uniq = {}
        for v in V:
            uniq.setdefault(v["sig"], v)
        return {"violations": list(uniq.values()), "cov": dict(cov), "outcome": sha(outcomes), "nontrivial": True, "transitions": runs}

    if kind == "client_history":
        from elexmodel.client import ModelClient
        from elexmodel.models.BootstrapElectionModel import BootstrapElectionModel
        from elexmodel.models.GaussianElectionModel import GaussianElectionModel

        client = ModelClient()
        outcomes = []
        feed_list = None
        for k, (pm, alphas, n) in enumerate(case["steps"]):
            units = _units(case["seed"], n, 0, pm)
            cfg = S.cfg_for({"nonparametric": "np1", "gaussian": "ga1", "bootstrap": "bs1"}[pm], "pc_cf", "drop", 100)
            cfg["alphas"] = list(alphas)
            mcls = {"nonparametric": NonparametricElectionModel, "gaussian": GaussianElectionModel, "bootstrap": BootstrapElectionModel}[pm]
            mn = max(mcls({"features": cfg["features"]}).get_minimum_reporting_units(a) for a in alphas)
            if case.get("feed_as_list"):
                baseline, feed = E.frames(units, cfg)
                if feed_list is None:
                    feed_list = [list(feed.columns)] + feed.values.tolist()
                    cov["list_of_lists_feeds"] += 1
                res = E.run_estimates(units, cfg, client=ModelClient(), frames_override=(baseline, feed_list))
            else:
                res = E.run_estimates(units, cfg, client=client)
            if "error" in res:
                outcome = res["error"][0]
            else:
                fin, where = _finite_tables(res["ok"])
                outcome = "completed" if fin else "completed-nonfinite"
            expected = "completed" if n >= mn else "ModelNotEnoughSubunitsException"
            if outcome != expected:
                V.append({"sig": f"C14:history:{pm}:{'above' if n >= mn else 'below'}-minimum:{outcome}", "msg": f"one client, requests {case['steps']}: request {k + 1} ({pm} alphas={alphas}, {n} modelled reporting units, own minimum {mn}) expected {expected}, got {outcome} {res.get('error', ['', ''])[1][:150] if 'error' in res else ''}"})
            outcomes.append(outcome)
            cov["history_requests"] += 1
        return {"violations": V, "cov": dict(cov), "outcome": sha(outcomes), "nontrivial": True, "transitions": len(case["steps"])}

    # client
    pm = case["pm"]
    n = case["n"]
    units = _units(case["seed"], n, case["extras"], pm, case.get("dup", False))
    setup = {"nonparametric": "np1", "gaussian": "ga1", "bootstrap": "bs1"}[pm]
    cfg = S.cfg_for(setup, "pc_cf", "drop", 100)
    cfg["alphas"] = list(case["alphas"])
    if case.get("nfeat"):
        import random

        rng = random.Random(case["seed"] * 13 + case["n"])
        names = [E.FEATURE] + [f"x{j}" for j in range(2, case["nfeat"] + 1)]
        for u in units:
            u["extra_baseline"] = {nm: round(rng.random(), 3) for nm in names[1:]}
        cfg["features"] = names
        cov["runs_with_covariates"] += 1
    baseline, feed = E.frames(units, cfg)
    if case.get("dup"):
        import pandas as pd

        rep_id = [u["id"] for u in units if u["role"] == "bg"][0]
        twin = feed[feed.geographic_unit_fips == rep_id].copy()
        if case["dup"] == "other_counts":  # the same unit delivered twice with different (still plausible) counts
            for c in ("results_dem", "results_gop", "results_turnout"):
                twin[c] = twin[c] + 7
        elif case["dup"] == "other_percent":
            twin["percent_expected_vote"] = 100.5
        feed = pd.concat([feed, twin], ignore_index=True)
    from elexmodel.client import ModelClient
    from elexmodel.models.BootstrapElectionModel import BootstrapElectionModel
    from elexmodel.models.GaussianElectionModel import GaussianElectionModel

    mp, kwargs = E.call_kwargs(units, cfg)
    mcls = {"nonparametric": NonparametricElectionModel, "gaussian": GaussianElectionModel, "bootstrap": BootstrapElectionModel}[pm]
    m = mcls({"features": cfg["features"]})
    mn = max(m.get_minimum_reporting_units(a) for a in cfg["alphas"])
    n_rep = n + (1 if case.get("dup") else 0)
    try:
        res = ModelClient().get_estimates(
            feed, E.ELECTION_ID, "G", list(cfg["estimands"]), prediction_intervals=list(cfg["alphas"]), percent_reporting_threshold=100,
            geographic_unit_type="precinct", raw_config=E.raw_config(cfg), preprocessed_data=baseline, model_parameters=mp, **kwargs,
        )
        tables = {k: E.table_to_obj(v) for k, v in res.items()}
        fin, where = _finite_tables(tables)
        outcome = "completed" if fin else "completed-nonfinite"
    except Exception as e:
        outcome = type(e).__name__
        where = str(e)[:200]
    if n_rep < mn:
        expected = "ModelNotEnoughSubunitsException"
        cov["below_minimum"] += 1
    elif case.get("dup"):
        expected = "ModelClientException"
        cov["duplicate_ids"] += 1
    else:
        expected = "completed"
        cov["at_or_above_minimum"] += 1
        if n_rep == mn:
            cov["exactly_minimum"] += 1
    if outcome != expected:
        rel = "below" if n_rep < mn else ("at" if n_rep == mn else "above")
        V.append({"sig": f"C14:{pm}:{rel}-minimum:{outcome}", "msg": f"{pm} alphas={cfg['alphas']} modelled reporting units={n_rep} (minimum {mn}, extras={case['extras']}, dup={case.get('dup', False)}, covariates={case.get('nfeat', 0)}): expected {expected}, got {outcome} {where}"})
    return {"violations": V, "cov": dict(cov), "outcome": f"{pm}:{outcome}", "nontrivial": abs(n_rep - mn) <= 12}


def post(cases, results, tier, seed):
    return {"cov": {}}


REQUIRED_COUNTERS = {"arith_states": 1000000, "P_true_finite": 100, "below_minimum": 10, "exactly_minimum": 5, "duplicate_ids": 9, "runs_with_covariates": 30, "history_requests": 60, "list_of_lists_feeds": 4}
