"""C17 - margin histories interpolate within bounds; irregular histories are discarded (E-SEAM)."""
import itertools
import math
from collections import Counter
from fractions import Fraction

from ..runner import sha

PROPERTY = "C17"
LEVEL = "model_checking"
ENGINE = "E-SEAM"
TECHNIQUE = "exhaustive enumeration of per-unit version histories (every step sequence up to a length bound over a step alphabet) executed on the real compute_versioned_margin_estimate; clause-by-clause oracle in exact rationals"
RULE = (
    "every version history = first version in {(0,0,0),(5,3,1)} followed by up to L-1 steps over the alphabet "
    "{repeat, +3 dem, +3 gop +1 other, +10/+3, +3/+10 +2 other, -2 dem (downward revision), +3 dem -2 gop (impossible batch, turnout still grows), "
    "+3 other only, +10/+10, +10 dem -1 gop (batch margin 11/9, just above 1), +3 dem -3 gop (votes moved between candidates at unchanged totals: batch margin 6/0), -3 dem and -3 other (exact inverses of +3 steps, so a revision can be restored to an identical earlier version)} x latest recorded percent in {40, 93.5, 100} x earlier recorded percents {consistent, garbage} x count dtype {float, int}, "
    "one and two units per frame. Oracle: regular history => rows exactly for p = 0..floor(latest), est(p)*p = m_v*perc_v + b_v*(p - perc_v) with v the "
    "last observation at or below p (hence a convex combination within [-1,1]), est = first margin before the first observation (p = 0 exempt), "
    "correction = final margin - est; irregular history => all corrections missing and the error type recorded. non-trivial = the history has at least "
    "two distinct turnout levels or is irregular"
)
ASSUMPTIONS = [
    "float knife edges: an observation whose exact percent is within 1e-9 of a whole percent p may be read as 'at p' or 'just above p'; both readings are accepted",
    "p = 0 is exempt (the code defines est(0) = 0)",
]
STEPS = [(0, 0, 0), (3, 0, 0), (0, 3, 1), (10, 3, 0), (3, 10, 2), (-2, 0, 0), (3, -2, 0), (0, 0, 3), (10, 10, 0), (10, -1, 0), (3, -3, 0), (-3, 0, 0), (0, 0, -3)]
FIRST = [(0, 0, 0), (5, 3, 1), (500, 400, 100)]  # the third: later revisions by a few votes are a fraction of a percent
LATEST = [40.0, 93.5, 100.0, 104.2]  # turnout can come in above the expected vote
SELFCHECK_INDEX = 2


def bounds(tier):
    return {"max_versions": 4 if tier == "quick" else 5, "step_alphabet": STEPS, "first_version": FIRST, "latest_percent": LATEST, "dtypes": ["float", "int"], "units_per_frame": [1, 2]}


def cases(tier, seed):
    L = 4 if tier == "quick" else 5
    out = []
    for first in range(len(FIRST)):
        for n in range(0, L):
            seqs = list(itertools.product(range(len(STEPS)), repeat=n))
            chunk = 24
            for i in range(0, len(seqs), chunk):
                out.append({"first": first, "seqs": [list(s) for s in seqs[i : i + chunk]]})
    return out


def describe(case):
    return {"first": FIRST[case["first"]], "n_histories": len(case["seqs"]), "example_steps": [STEPS[i] for i in case["seqs"][-1]]}


def _history(first, seq):
    d, g, o = FIRST[first]
    hist = [(d, g, o)]
    for s in seq:
        dd, dg, do = STEPS[s]
        d, g, o = d + dd, g + dg, o + do
        hist.append((d, g, o))
    return hist


def _margin(d, g):
    w = d + g
    return Fraction(d - g, w) if w != 0 else Fraction(0)


def reference(hist, latest, truncated=False):
    """('irregular', reason) or ('regular', {p: set of acceptable (est, corr)})"""
    T = [d + g + o for d, g, o in hist]
    if any(t < 0 for t in T) or any(d < 0 or g < 0 for d, g, o in hist):
        return ("invalid", None)
    last = T[-1]
    if truncated:
        perc = [Fraction((t // last) if last else 0) * Fraction(latest) for t in T]
        corr = [Fraction(t // last if last else 0) for t in T]
    else:
        perc = [(Fraction(t, last) if last else Fraction(0)) * Fraction(latest) for t in T]
        corr = [Fraction(t, last) if last else Fraction(0) for t in T]
    if any(corr[i + 1] < corr[i] for i in range(len(T) - 1)):
        return ("irregular", "non-monotone percent expected vote")
    W = [d + g for d, g, o in hist]
    M = [_margin(d, g) for d, g, o in hist]
    b = []
    for i in range(len(hist)):
        if i + 1 < len(hist):
            num = (hist[i + 1][0] - hist[i][0]) - (hist[i + 1][1] - hist[i][1])
            den = W[i + 1] - W[i]
        else:
            num, den = 0, 0
        if den == 0:
            if num != 0:
                return ("irregular", "batch_margin")
            b.append(Fraction(0))
        else:
            b.append(Fraction(num, den))
    if any(abs(x) > 1 for x in b):
        return ("irregular", "batch_margin")
    maxp = max(perc)
    rows = {}
    for p in range(0, math.floor(maxp) + 1):
        acc = set()
        # candidates for "last observation at or below p", with knife-edge tolerance
        # tolerance only where the implementation's float quotient is not exact (an exact whole percent such as the
        # final version's must be read as "observed at p")
        def inexact(i):
            return last != 0 and Fraction((T[i] / last) * float(latest)) != perc[i]

        strict = [i for i in range(len(perc)) if perc[i] <= p]
        loose = [i for i in range(len(perc)) if perc[i] <= p or (inexact(i) and perc[i] <= p + Fraction(1, 10**9))]
        tight = [i for i in range(len(perc)) if perc[i] <= p and not (inexact(i) and perc[i] > p - Fraction(1, 10**9))]
        for cand in (strict, loose, tight):
            v = cand[-1] if cand else -1
            if p == 0:
                est = Fraction(0)
            elif v == -1:
                est = M[0]
            else:
                est = (M[v] * perc[v] + b[v] * (p - perc[v])) / p
            acc.add((est, M[-1] - est, v))
        rows[p] = acc
    return ("regular", rows)


def _frame(hists, latest, recorded, dtype):
    import pandas as pd

    rows = []
    for uid, hist in hists:
        T = [d + g + o for d, g, o in hist]
        n = len(hist)
        for i, (d, g, o) in enumerate(hist):
            if i == n - 1:
                pev = latest
            elif recorded == "consistent":
                pev = (T[i] / T[-1] * latest) if T[-1] else 0.0
            else:
                pev = 99.5 - 3 * i if i % 2 == 0 else float((n - i) * 7 % 100)  # garbage: non-monotone, and above the latest percent (revised downwards after the fact)
            w = d + g
            rows.append(
                {
                    "postal_code": "AA",
                    "geographic_unit_fips": uid,
                    "results_turnout": d + g + o,
                    "results_dem": d,
                    "results_gop": g,
                    "percent_expected_vote": pev,
                    "results_weights": w,
                    "results_margin": d - g,
                    "results_normalized_margin": ((d - g) / w) if w else 0.0,
                }
            )
    df = pd.DataFrame(rows)
    for c in ("results_turnout", "results_dem", "results_gop", "results_weights", "results_margin"):
        df[c] = df[c].astype(dtype)
    return df


def _blank(df, all_cells):
    """the same versions with the cells of vote-less versions left blank, as a feed writes a unit that has not reported"""
    import numpy as np

    out = df.copy()
    zero = (out.results_turnout == 0) & (out.results_dem == 0) & (out.results_gop == 0)
    cols = ["results_dem", "results_gop", "results_weights", "results_margin", "results_normalized_margin"] + (["results_turnout"] if all_cells else [])
    out.loc[zero, cols] = np.nan
    return out


def evaluate(case):
    import warnings

    import numpy as np

    from elexmodel.handlers.data.VersionedData import VersionedDataHandler

    cov = Counter()
    V = []
    outs = []
    runs = 0
    nontrivial = False

    def viol(kind, msg):
        if not any(v["sig"] == f"C17:{kind}" for v in V):
            V.append({"sig": f"C17:{kind}", "msg": msg})

    h = VersionedDataHandler.__new__(VersionedDataHandler)
    # the companion unit of two-unit frames: a regular history, a downward revision, an impossible batch - sorted before
    # or after the unit under test (what is recorded for one unit must not depend on the other)
    fillers = [_history(1, [3, 1]), _history(1, [5, 3]), _history(1, [9, 3])]
    assert [reference(f, 100.0)[0] for f in fillers] == ["regular", "irregular", "irregular"] and reference(fillers[1], 100.0)[1] != reference(fillers[2], 100.0)[1]
    for si, seq in enumerate(case["seqs"]):
        hist = _history(case["first"], seq)
        if reference(hist, 100.0)[0] == "invalid":
            cov["invalid_histories_skipped"] += 1
            continue
        for li, latest in enumerate(LATEST):
            for recorded in ("consistent", "garbage"):
                for dtype in ("float", "int"):
                    if recorded == "garbage" and (si + li) % 2:
                        continue  # recorded percents of earlier versions are irrelevant by construction; half the histories cover it
                    two = (si + li) % 3 == 0
                    fk = (si // 3 + li) % 3
                    hists = [("0100", hist)] + ([("0200" if (si + li) // 3 % 2 == 0 else "0050", fillers[fk])] if two else [])
                    if two:
                        cov[f"two_unit_frames_companion_{['regular', 'downward_revision', 'impossible_batch'][fk]}"] += 1
                    df0 = _frame(hists, latest, recorded, dtype)
                    # how the frame reaches the method (as the argument / as the handler's own frame, which is how the
                    # bootstrap model calls it) and how a version without votes is written in the file (zeros / blank
                    # cells / turnout 0 with blank candidate cells) are not information
                    own = (si + li + (dtype == "int")) % 2 == 1
                    variants = [("own" if own else "arg", "zeros", df0)]
                    if dtype == "float" and any(d == 0 and g == 0 and o == 0 for d, g, o in hist) and recorded == "consistent":
                        variants += [("own", "blank", _blank(df0, True)), ("arg", "blank", _blank(df0, True)), ("own", "blank-candidates", _blank(df0, False))]
                    for path, written, df in variants:
                        with warnings.catch_warnings():
                            warnings.simplefilter("ignore")
                            try:
                                if path == "own":
                                    h.data = df
                                    res = h.compute_versioned_margin_estimate()
                                else:
                                    res = h.compute_versioned_margin_estimate(data=df)
                            except Exception as e:
                                viol(f"raised:{dtype}", f"hist={hist} latest={latest} {recorded} {dtype} frame passed as {path}, vote-less versions written as {written}: {type(e).__name__}: {e}")
                                continue
                        runs += 1
                        cov[f"frame_{path}_{written}"] += 1
                        got = res[res.geographic_unit_fips == "0100"]
                        ctx = f"history(dem,gop,other)={hist} latest_percent={latest} recorded={recorded} dtype={dtype} units={len(hists)} frame passed as {path}, vote-less versions written as {written}"
                        ref = reference(hist, latest)
                        sigsuffix = ""
                        if dtype == "int":
                            tref = reference(hist, latest, truncated=True)
                            if not _matches(got, tref):
                                if _matches(got, ref):
                                    pass
                                else:
                                    viol("int-dtype:neither-exact-nor-truncated", f"{ctx}: output matches neither the exact nor the truncated-percent reference")
                                    continue
                            elif not _matches(got, ref):
                                viol("int-dtype-turnout:rescaled-percent-truncated", f"{ctx}: integer count columns: intermediate percents are truncated to 0, e.g. rows {_first_diff(got, ref)}")
                                cov["int_truncation_visible"] += 1
                                continue
                        else:
                            why = _mismatch(got, ref)
                            if why:
                                viol(why[0], f"{ctx}: {why[1]}")
                                continue
                        if ref[0] == "irregular":
                            cov["irregular_" + ref[1].split()[0]] += 1
                            nontrivial = True
                        else:
                            cov["regular"] += 1
                            if len({d + g + o for d, g, o in hist}) >= 2:
                                nontrivial = True
                                cov["regular_with_interpolation"] += 1
                            if any(len({e for e, _, _ in acc}) > 1 for acc in ref[1].values()):
                                cov["knife_edge_rows"] += 1
                        outs.append(ref[0])
    return {"violations": V, "cov": dict(cov), "outcome": sha(outs)[:16], "nontrivial": nontrivial, "transitions": max(1, runs)}


def _mismatch(got, ref):
    import numpy as np

    if ref[0] == "irregular":
        if len(got) != 101 or not got.est_correction.isna().all() or not got.est_margin.isna().all():
            return ("irregular-history-not-discarded", f"history is irregular ({ref[1]}) but {int(got.est_correction.notna().sum())} corrections are present")
        if not (got.error_type == ref[1]).all():
            return ("irregular-error-type", f"error_type {sorted(set(got.error_type))} expected {ref[1]}")
        return None
    rows = ref[1]
    if sorted(got.percent_expected_vote.tolist()) != sorted(rows):
        return ("rows-missing", f"rows for percents {sorted(got.percent_expected_vote.tolist())[:3]}..{len(got)} expected 0..{max(rows)}")
    if not (got.error_type == "none").all():
        return ("regular-history-flagged", f"regular history flagged {sorted(set(got.error_type))}")
    for r in got.itertuples(index=False):
        p = int(r.percent_expected_vote)
        ok = False
        for est, corr, v in rows[p]:
            if abs(float(est) - r.est_margin) <= 1e-9 and abs(float(corr) - r.est_correction) <= 1e-9:
                ok = True
        if not ok:
            kind = "before-first-observation" if all(v == -1 for _, _, v in rows[p]) else "interpolation"
            return (kind, f"p={p}: est_margin={r.est_margin} est_correction={r.est_correction}, expected one of {[(float(e), float(c)) for e, c, _ in rows[p]]}")
        if not (-1 - 1e-9 <= r.est_margin <= 1 + 1e-9):
            return ("out-of-bounds", f"p={p}: est_margin={r.est_margin} outside [-1,1]")
    return None


def _matches(got, ref):
    return _mismatch(got, ref) is None


def _first_diff(got, ref):
    m = _mismatch(got, ref)
    return m[1][:300] if m else ""


REQUIRED_COUNTERS = {"regular_with_interpolation": 1000, "irregular_non-monotone": 500, "irregular_batch_margin": 500, "two_unit_frames_companion_downward_revision": 500, "two_unit_frames_companion_impossible_batch": 500}
