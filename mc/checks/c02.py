"""C02 - every aggregate equals the sum of its units; levels agree; intervals sit on their own row."""
from collections import Counter

from .. import election as E
from .. import refmodel as R
from .. import scen as S
from ..runner import sha

PROPERTY = "C02"
LEVEL = "model_checking"
RULE = (
    "scenarios as in C01 restricted to runs with >= 2 levels or >= 2 groups, interval levels singly and in pairs; "
    "oracle: per group key, pred = counted(reporting + attributable passthrough) + sum of unit predictions of its "
    "outstanding units (nonparametric: same for lower/upper); bootstrap: pred_turnout = sum of unit pred_turnout, "
    "pred_margin = sum unit pred_margin / pred_turnout, and each group's bounds are recomputed per *key* from the model's "
    "bootstrap draw matrices (dictionary-keyed, never positional); sums of finer tables equal coarser tables where every "
    "unit is attributable. non-trivial = scenario has a group with an outstanding unit and >= 2 groups in some table"
)
ASSUMPTIONS = [
    "bootstrap draw matrices errors_B_1..4 / weighted_*_test_pred are the documented model state (rows = outstanding units in model order)",
    "np.quantile and the model's own rank arithmetic (_get_quantiles, checked by C06) are trusted leaves",
    "gaussian interval identity per group is C15's business; here gaussian gets the prediction identity and the no-outstanding-unit rows",
]
SELFCHECK_INDEX = 3


def bounds(tier):
    return {"probes_k": "1 and 2", "alphas": [[0.7], [0.5, 0.7], [0.7, 0.9], [0.9, 0.5]], "district_office": "districts 1,10,2 with 2- and 3-key aggregate lists"}


def cases(tier, seed):
    out = []
    types = S.probe_types(statuses=[s for s in S.PROBE_STATUSES if s not in ("tf_at_lower", "tf_above")])
    setups = ["np2", "ga2", "bs1"]
    for st_loc in types:
        for setup in setups:
            for agg in ["all", "cf_pc", "pc_cf", "cc_pc_cf"] if tier == "quick" else ["all", "cf_pc", "pc_cf", "cc_pc_cf", "pc_cc", "cf", "cc"]:
                for policy in ("drop", "zero"):
                    out.append(dict(seed=seed, bg=dict(S.bg_for(setup), partial=2), probes=[list(st_loc)], cfg=S.cfg_for(setup, agg, policy, 100)))
    pairs = S.multisets(S.probe_types(statuses=["nonrep0", "nonrep_partial", "nonrep_exceed", "unexpected", "zero_baseline", "unit_blocklisted", "missing"]), 2)
    alphas_cycle = [[0.7], [0.5, 0.7], [0.7, 0.9], [0.9, 0.5]]
    for i, pr in enumerate(pairs):
        combos = [("np2", "all", "zero"), ("bs1", "all", "drop")]
        if tier == "thorough":
            combos += [("ga2", "all", "zero"), ("bs1", "cf_pc", "zero"), ("np1", "pc_cf", "drop")]
        for setup, agg, policy in combos:
            cfg = S.cfg_for(setup, agg, policy, 100)
            cfg["alphas"] = alphas_cycle[i % 4] if not setup.startswith("np") else [a for a in alphas_cycle[i % 4] if a <= 0.7] or [0.7]
            out.append(dict(seed=seed, bg=dict(S.bg_for(setup), partial=1), probes=[list(p) for p in pr], cfg=cfg))
    # a county that consists of one unit outside the model without a single vote yet: its totals are exactly zero
    for st in ("unexpected", "unit_blocklisted", "zero_baseline"):
        for setup in setups:
            for agg in ("all", "cf_pc"):
                out.append(dict(seed=seed, bg=dict(S.bg_for(setup), partial=2), probes=[[st, "newcounty"]], cfg=S.cfg_for(setup, agg, "drop", 100), zero_votes=True))
    # district office: 2-key contest table and 3-key county table, districts 1 / 10 / 2
    dtypes = S.probe_types(statuses=["reporting", "nonrep0", "nonrep_partial", "unexpected", "zero_baseline"], locations=["pop0", "pop1", "newcounty"])
    for st_loc in dtypes:
        for d in ("1", "10", "2"):
            for setup in ("np1", "bs1", "ga1"):
                for agg in ("pc_d", "pc_d_cf"):
                    out.append(
                        dict(seed=seed, bg=dict(S.bg_for(setup), n=24, partial=6), probes=[list(st_loc) + [d]], cfg=S.cfg_for(setup, agg, "drop", 100, office="H"))
                    )
    # a statewide office whose units carry a district column, district table requested (only the sum over the district table
    # is judged: the statement does not say which district an unexpected unit of such an office belongs to)
    for setup in ("np1", "ga1", "np2"):
        for probes in ([["unexpected", "pop0"]], [["unexpected", "newcounty"]], [["unexpected", "pop0"], ["zero_baseline", "pop1"]], [["nonrep_partial", "pop0"]]):
            for policy in ("drop", "zero"):
                cfg = S.cfg_for(setup, "pc", policy, 100)
                cfg["aggregates"] = ["postal_code", "district", "unit"]
                cfg["district_column"] = True
                out.append(dict(seed=seed, bg=dict(S.bg_for(setup), partial=2), probes=[list(p) for p in probes], cfg=cfg, statewide_district=True))
    # gaussian group structures of C15 (own / state / all-units calibration side by side, one or two states): every group without
    # outstanding units must carry a zero-width interval at its own counted votes, every prediction the sum of its units
    import itertools

    for pat in (["A", "A", "B"], ["A", "B"], ["A", "A", "A"]):
        for cs in itertools.product([0, 1, 10], repeat=len(pat)):
            for outs in itertools.product([False, True], repeat=len(pat)):
                if not any(outs) or all(outs):
                    continue
                out.append({"structure": {"pattern": pat, "counts": list(cs), "outstanding": list(outs), "seed": seed}, "seed": seed, "probes": [], "bg": {}, "cfg": E.make_cfg(pi_method="gaussian", estimands=["turnout"], alphas=[0.7, 0.9], aggregates=["postal_code", "county_fips", "unit"], features=[])})
    return out


def describe(case):
    if "structure" in case:
        return {"structure": case["structure"]}
    return {"probes": case["probes"], "bg": case["bg"], "cfg": {k: case["cfg"][k] for k in ("office", "pi_method", "estimands", "aggregates", "alphas", "policy")}}


def _close(a, b, rel=1e-9, absol=1e-9):
    return abs(a - b) <= max(absol, rel * max(abs(a), abs(b)))


def bootstrap_reference(client, units, cfg, cats, level, alpha):
    """Per group key: (lower, upper) recomputed from the model's draw matrices, dictionary-keyed."""
    import numpy as np

    m = client.model
    rh = client.results_handler
    nr_ids = list(rh.nonreporting_units.geographic_unit_fips)
    row_of = {uid: i for i, uid in enumerate(nr_ids)}
    rep = rh.reporting_units
    rep_by = {r.geographic_unit_fips: r for r in rep.itertuples(index=False)}
    unx = rh.unexpected_units
    unx_by = {r.geographic_unit_fips: r for r in unx.itertuples(index=False)}
    cols, ref = R.groups(units, cfg, cats, level)
    lower_q, upper_q = m._get_quantiles(alpha)
    B = m.B
    out = {}
    for key, g in ref.items():
        n1 = np.zeros(B)
        n2 = np.zeros(B)
        d1 = np.zeros(B)
        d2 = np.zeros(B)
        pz = 0.0
        pyz = 0.0
        for uid in g["fit"]:
            r = rep_by[uid]
            w, y, z = float(r.baseline_weights), float(r.results_normalized_margin), float(r.turnout_factor)
            n1 += w * (y * z)
            n2 += w * (y * z)
            d1 += w * z
            d2 += w * z
            pz += w * z
            pyz += w * (y * z)
        for uid in g["passthrough"]:
            # counted votes of a unit outside the model: from the scenario, not from a frame the run may have touched
            eff = cats[uid]["eff"]
            rm, rw = float(eff["r_dem"] - eff["r_gop"]), float(eff["r_dem"] + eff["r_gop"])
            if uid in unx_by and (float(unx_by[uid].results_margin) != rm or float(unx_by[uid].results_weights) != rw):
                raise RuntimeError(f"reference and handler disagree on the counted votes of {uid}")
            n1 += rm
            n2 += rm
            d1 += rw
            d2 += rw
            pz += rw
            pyz += rm
        for uid in g["predict"]:
            i = row_of[uid]
            n1 += m.errors_B_1[i]
            n2 += m.errors_B_2[i]
            d1 += m.errors_B_3[i]
            d2 += m.errors_B_4[i]
            pz += float(m.weighted_z_test_pred[i, 0])
            pyz += float(m.weighted_yz_test_pred[i, 0])
        with np.errstate(all="ignore"):
            diff = np.nan_to_num(n1 / d1) - np.nan_to_num(n2 / d2)
            pred = float(np.nan_to_num(pyz / pz)) if pz != 0 else 0.0
        qs = np.quantile(diff, q=[lower_q, upper_q])
        upper = max(pred - qs[0], pred + 0.001)
        lower = min(pred - qs[1], pred - 0.001)
        out[key] = (lower, upper, pred, pz)
    return cols, out


def evaluate(case):
    cov = Counter()
    if "structure" in case:
        from . import c15

        units = c15.build(case["structure"])[0]
        cov["gaussian_structures"] += 1
    else:
        units = S.build_units(case)
        if case.get("zero_votes"):
            for u in units:
                if u["role"] == "probe":
                    u.update(r_dem=0, r_gop=0, r_turnout=0, pev=0.0)
            cov["runs_with_zero_total_group"] += 1
    cfg = case["cfg"]
    pm = cfg["pi_method"]
    if case.get("statewide_district"):
        for i, u in enumerate(sorted(units, key=lambda u: u["id"])):
            u["district"] = ["1", "10", "2"][i % 3]
        return _statewide_district(case, units, cfg, cov)
    res = E.run_estimates(units, cfg, keep_client=True)
    V = []

    def viol(kind, msg):
        V.append({"sig": f"C02:{kind}:{pm}", "msg": msg})

    if "error" in res:
        et = res["error"][0]
        cov["runs_raised_" + et] += 1
        if et not in ("ModelNotEnoughSubunitsException",) and pm == "bootstrap" and "get_aggregate_pred" in res.get("tb", ""):
            # the aggregation mechanism itself failed: no group can equal the sum of its units
            viol(f"aggregation-raised-{et}", f"bootstrap aggregation raised {res['error']}")
        return {"violations": V, "cov": dict(cov), "outcome": "error:" + et, "nontrivial": False, "note": {k: res[k] for k in ("error", "tb")}}
    cov["runs_completed"] += 1
    tables = res["ok"]
    client = res["client"]
    cats = R.categorize(units, cfg)
    urows = {r["geographic_unit_fips"]: r for r in E.tab_rows(tables["unit_data"])}
    nontrivial = False
    level_sums = {}
    for level in [a for a in cfg["aggregates"] if a != "unit"]:
        tname = R.LEVEL_TABLE[level]
        cols, ref = R.groups(units, cfg, cats, level)
        rows = {tuple(r.get(c) for c in cols): r for r in E.tab_rows(tables[tname])}
        if len(ref) >= 2 and any(g["predict"] for g in ref.values()):
            nontrivial = True
        all_attr = all(
            all(R.unit_key(u, cats[u["id"]], c, cfg) is not None for c in cols) for u in units if u["id"] in cats
        ) and "county_classification" not in cols
        for e in cfg["estimands"]:
            if e == "margin":
                continue
            for key, g in ref.items():
                r = rows.get(key)
                if r is None:
                    continue  # C01 reports missing groups
                members_counted = g["fit"] + g["passthrough"]
                counted = sum(R.result_value(cats[u]["eff"], e) for u in members_counted)
                exp = counted + sum(urows[u][f"pred_{e}"] for u in g["predict"] if u in urows)
                if float(r[f"pred_{e}"]) != float(exp):
                    viol("pred-sum", f"{tname} {key}: pred_{e}={r[f'pred_{e}']} expected {exp} (= {counted} counted + predictions of {g['predict']})")
                cov["pred_identities"] += 1
                for a in cfg["alphas"]:
                    lo, hi = r[f"lower_{a}_{e}"], r[f"upper_{a}_{e}"]
                    if pm == "nonparametric":
                        elo = counted + sum(urows[u][f"lower_{a}_{e}"] for u in g["predict"] if u in urows)
                        ehi = counted + sum(urows[u][f"upper_{a}_{e}"] for u in g["predict"] if u in urows)
                        if float(lo) != float(elo) or float(hi) != float(ehi):
                            viol("interval-sum", f"{tname} {key} alpha={a}: ({lo},{hi}) expected ({elo},{ehi})")
                        cov["interval_identities"] += 1
                    elif not g["predict"]:
                        res_all = sum(R.result_value(cats[u]["eff"], e) for u in members_counted)
                        if float(lo) != float(res_all) or float(hi) != float(res_all):
                            viol("interval-row", f"{tname} {key} alpha={a}: group has no outstanding unit but ({lo},{hi}) != counted {res_all}")
                        cov["no_outstanding_rows"] += 1
            if all_attr:
                level_sums[(level, e)] = sum(float(r[f"pred_{e}"]) for r in rows.values())
        if pm == "bootstrap":
            for a in cfg["alphas"]:
                _, bref = bootstrap_reference(client, units, cfg, cats, level, a)
                for key, (elo, ehi, epred, ept) in bref.items():
                    r = rows.get(key)
                    if r is None:
                        continue
                    g = ref[key]
                    exp_pt = sum(float(urows[u]["pred_turnout"]) for u in g["fit"] + g["predict"] + g["passthrough"] if u in urows)
                    exp_pm_num = sum(float(urows[u]["pred_margin"]) for u in g["fit"] + g["predict"] + g["passthrough"] if u in urows)
                    if not _close(float(r["pred_turnout"]), exp_pt):
                        viol("turnout-sum", f"{tname} {key}: pred_turnout={r['pred_turnout']} expected {exp_pt} from members {g['fit'] + g['predict'] + g['passthrough']}")
                    exp_pm = 0.0 if exp_pt == 0 else exp_pm_num / exp_pt
                    called = key[-1] in cfg.get("lhs", []) + cfg.get("rhs", []) + cfg.get("stop", []) if len(key) else False
                    if not called:
                        if not _close(float(r["pred_margin"]), exp_pm, 1e-9, 1e-7):
                            viol("margin-sum", f"{tname} {key}: pred_margin={r['pred_margin']} expected {exp_pm}")
                        lo, hi = float(r[f"lower_{a}_margin"]), float(r[f"upper_{a}_margin"])
                        if not (_close(lo, elo, 1e-7, 1e-9) and _close(hi, ehi, 1e-7, 1e-9)):
                            viol("interval-row", f"{tname} {key} alpha={a}: ({lo},{hi}) but the group's own draws give ({elo},{ehi})")
                    cov["bootstrap_rows_recomputed"] += 1
    # levels agree
    for e in cfg["estimands"]:
        vals = {lv: s for (lv, ee), s in level_sums.items() if ee == e}
        if len(vals) >= 2 and len({round(v, 6) for v in vals.values()}) != 1:
            viol("levels-disagree", f"sum of pred_{e} differs between levels: {vals}")
        if vals:
            cov["level_sum_comparisons"] += len(vals) - 1
            if "unit_data" in tables and e != "margin":
                us = sum(float(r[f"pred_{e}"]) for r in urows.values() if True)
                if all(R.unit_key(u, cats[u["id"]], "postal_code", cfg) is not None for u in units if u["id"] in cats):
                    for lv, s in vals.items():
                        if round(s, 6) != round(us, 6):
                            viol("levels-disagree", f"sum of unit pred_{e} = {us} but level {lv} sums to {s}")
    uniq = {}
    for v in V:
        uniq.setdefault(v["sig"], v)
    return {
        "violations": list(uniq.values()),
        "cov": dict(cov),
        "outcome": sha({k: v["rows"] for k, v in tables.items()})[:16],
        "nontrivial": nontrivial,
    }


def _statewide_district(case, units, cfg, cov):
    """district table of a statewide office: every column of the district rows sums to the state row and to the unit rows"""
    pm = cfg["pi_method"]
    res = E.run_estimates(units, cfg)
    V = []
    if "error" in res:
        cov["runs_raised_" + res["error"][0]] += 1
        return {"violations": V, "cov": dict(cov), "outcome": "error:" + res["error"][0], "nontrivial": False, "note": {k: res[k] for k in ("error", "tb")}}
    cov["runs_completed"] += 1
    cov["statewide_office_district_tables"] += 1
    t = res["ok"]
    st, di, un = E.tab_rows(t["state_data"]), E.tab_rows(t["district_data"]), E.tab_rows(t["unit_data"])
    for e in cfg["estimands"]:
        cols = [f"results_{e}", f"pred_{e}"] + ([c for a in cfg["alphas"] for c in (f"lower_{a}_{e}", f"upper_{a}_{e}")] if pm == "nonparametric" else [])
        for c in cols:
            s_state = sum(float(r[c]) for r in st)
            s_dist = sum(float(r[c]) for r in di)
            s_unit = sum(float(r[c]) for r in un)
            if s_state != s_dist:
                V.append({"sig": f"C02:district-table-does-not-sum-to-state:{pm}", "msg": f"statewide office with a district table, probes {case['probes']}: sum of {c} over district rows = {s_dist}, state rows = {s_state}, unit rows = {s_unit}"})
            if s_state != s_unit:
                V.append({"sig": f"C02:levels-disagree:{pm}", "msg": f"statewide office with a district table, probes {case['probes']}: sum of {c} over state rows = {s_state}, unit rows = {s_unit}"})
            cov["level_sum_comparisons"] += 2
    uniq = {}
    for v in V:
        uniq.setdefault(v["sig"], v)
    return {"violations": list(uniq.values()), "cov": dict(cov), "outcome": sha({k: v["rows"] for k, v in t.items()})[:16], "nontrivial": True}


REQUIRED_COUNTERS = {"statewide_office_district_tables": 10, "runs_completed": 300, "pred_identities": 500, "interval_identities": 300, "bootstrap_rows_recomputed": 300, "gaussian_structures": 50, "no_outstanding_rows": 200}
