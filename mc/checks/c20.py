"""C20 - a failed or inaccurate quantile-regression solve is retried, not fatal (E-FAULT)."""
import json
import os
import subprocess
import sys
from collections import Counter

from .. import election as E
from .. import fakes
from .. import scen as S
from ..env import VERIF
from ..runner import sha

PROPERTY = "C20"
LEVEL = "fault_enumeration"
ENGINE = "E-FAULT"
TECHNIQUE = "exhaustive fault enumeration: every position of the failing solve x both failure kinds (and every pair of positions), executed on the real estimate run through a solver seam; differential oracle against the fault-free run"
RULE = (
    "for nonparametric and gaussian runs with E in {1,2} estimands and A in {1,2} interval levels (K = E*(1+2A) per-quantile solves issued through "
    "fit_model; the fault is injected inside the solve of one quantile, where the real failures happen), lambda in {0, 0.5}, with/without a covariate: a fault of kind {SolverError, cvxpy inaccuracy UserWarning} is injected at "
    "every position k in 1..K (thorough: every pair of positions as well). Oracle: run completes; right after the failed "
    "attempt the same solver is called once more with the same quantile, weights, lambda, intercept flag and "
    "normalize_weights=False; tables equal the fault-free run (+-1 vote). Also: the same with the library's logger at INFO / DEBUG / CRITICAL, and in fresh interpreters whose host application installed its own UserWarning filter (ignore / always / default / ignore everything) before importing the library. non-trivial = a fault was actually delivered"
)
ASSUMPTIONS = [
    "the inaccuracy warning is emitted exactly as the *installed* cvxpy emits it (validated in every worker against a genuine under-converged solve: same category, attributed to the same file); the repository's own warnings filter must turn it into the exception",
    "a retry with un-normalised weights solves the same LP up to scaling; tables may differ by one vote at rounding ties (counted)",
]
_SEAM = None


def worker_init():
    global _SEAM
    # the seam's inaccuracy warning must be indistinguishable from the installed cvxpy's own
    g_file, s_file, g_cat, s_cat = fakes.genuine_cvxpy_inaccuracy_attribution()
    if (g_file, g_cat) != (s_file, s_cat):
        raise RuntimeError(f"solver seam misrepresents cvxpy: genuine warning attributed to {g_file} ({g_cat}), seam's to {s_file} ({s_cat})")
    _SEAM = fakes.SolverSeam()
    _SEAM.install()


def _configs():
    out = []
    for pm, n in (("nonparametric", 12), ("gaussian", 16)):
        for est in (["turnout"], ["turnout", "dem"]):
            for alphas in ([0.7], [0.5, 0.7]):
                for lam in (0, 0.5):
                    for feats in ([], [E.FEATURE]):
                        if lam and not feats:
                            continue  # regularisation only acts on covariates
                        cfg = E.make_cfg(
                            pi_method=pm,
                            estimands=est,
                            alphas=alphas,
                            features=feats,
                            aggregates=["postal_code", "county_fips", "unit"],
                            model_parameters={"lambda_": lam} if lam else {},
                        )
                        out.append((cfg, n))
    # an interval level whose quantiles (0.025 / 0.975) need a third decimal
    for pm, n in (("nonparametric", 44), ("gaussian", 16)):
        out.append((E.make_cfg(pi_method=pm, estimands=["turnout"], alphas=[0.95], features=[E.FEATURE], aggregates=["postal_code", "county_fips", "unit"], model_parameters={"lambda_": 0.5}), n))
    # fixed effects with a level that a single reporting unit carries: in some fits that unit is a calibration unit and the
    # level's dummy column is all zero on the training rows (the design matrix is then singular - expected, not fatal)
    for pm, n in (("nonparametric", 14), ("gaussian", 16)):
        cfg = E.make_cfg(pi_method=pm, estimands=["turnout"], alphas=[0.5, 0.7], features=[E.FEATURE], fixed_effects={"county_classification": ["all"]}, aggregates=["postal_code", "county_fips", "unit"], model_parameters={"lambda_": 0.5})
        cfg["single_unit_level"] = True
        out.append((cfg, n))
    # precinct data of a large state: one reporting unit with a single baseline vote among units of a million and more
    # (its share of the total weight is below 1e-6)
    for pm, n in (("nonparametric", 12), ("gaussian", 16)):
        cfg = E.make_cfg(pi_method=pm, estimands=["turnout"], alphas=[0.7], features=[E.FEATURE], aggregates=["postal_code", "county_fips", "unit"])
        cfg["tiny_unit"] = True
        out.append((cfg, n))
    return out


def bounds(tier):
    return {"positions": "every k in 1..K" + (" and every pair j<k" if tier == "thorough" else ""), "kinds": ["solver_error", "inaccurate"], "K": "E*(1+2A), E,A in {1,2}"}


def cases(tier, seed):
    out = []
    for cfg, n in _configs():
        K = len(cfg["estimands"]) * (1 + 2 * len(cfg["alphas"]))
        base = dict(seed=seed, bg=dict(n=n, layout="AA2", partial=0), probes=[["nonrep_partial", "pop0"], ["nonrep0", "pop1"], ["nonrep_partial", "newcounty"]], cfg=cfg)
        for k in range(1, K + 1):
            for kind in ("solver_error", "inaccurate"):
                out.append(dict(base, plan={str(k): kind}))
                # the host application's logging configuration is part of the environment: the library's logger silenced
                # (the harness default is ERROR, i.e. above WARNING), at the library default INFO, or verbose
                out.append(dict(base, plan={str(k): kind}, log_level=["INFO", "DEBUG", "CRITICAL"][k % 3]))
        if tier == "thorough":
            for j in range(1, K + 1):
                for k in range(j + 1, K + 1):
                    for kinds in (("solver_error", "inaccurate"), ("inaccurate", "solver_error"), ("solver_error", "solver_error")):
                        out.append(dict(base, plan={str(j): kinds[0], str(k): kinds[1]}))
    # the host application configured Python's warnings machinery before it imported the library (an 'ignore' / 'always' /
    # 'default' filter for UserWarning, as python -W or PYTHONWARNINGS would install): one fresh interpreter per host
    # configuration and estimator, every position of the inaccuracy warning and one solver error in it
    picks = [i for i, (cfg, n) in enumerate(_configs()) if cfg["estimands"] == ["turnout", "dem"] and cfg["alphas"] == [0.7] and cfg["features"] and cfg["model_parameters"]]
    for host in HOST_PRELUDES:
        for ci in picks:
            out.append({"kind": "host", "host": host, "config_index": ci, "seed": seed})
    return out


HOST_PRELUDES = {
    "ignore UserWarning": "warnings.filterwarnings('ignore', category=UserWarning)",
    "always UserWarning": "warnings.filterwarnings('always', category=UserWarning)",
    "default for everything": "warnings.simplefilter('default')",
    "ignore everything": "warnings.simplefilter('ignore')",
}

CHILD = r"""
import json, sys, warnings
%(prelude)s
sys.path.insert(0, %(verif)r)
from mc import env
env.apply_env({})
env.import_elexmodel()
from mc import fakes
fakes.install_fake_boto3()
from mc.checks import c20
c20.worker_init()
out = []
for case in json.loads(%(cases)r):
    r = c20.evaluate(case)
    out.append({"violations": r["violations"], "cov": r["cov"], "nontrivial": r["nontrivial"]})
print("C20CHILD " + json.dumps(out))
"""


def _host_case(case):
    cfg, n = _configs()[case["config_index"]]
    K = len(cfg["estimands"]) * (1 + 2 * len(cfg["alphas"]))
    base = dict(seed=case["seed"], bg=dict(n=n, layout="AA2", partial=0), probes=[["nonrep_partial", "pop0"], ["nonrep0", "pop1"], ["nonrep_partial", "newcounty"]], cfg=cfg)
    inner = [dict(base, plan={str(k): "inaccurate"}) for k in range(1, K + 1)] + [dict(base, plan={"1": "solver_error"})]
    code = CHILD % {"prelude": HOST_PRELUDES[case["host"]], "verif": VERIF, "cases": json.dumps(inner)}
    env = dict(os.environ)
    env.pop("MC_REEXEC", None)
    env.pop("PYTHONWARNINGS", None)
    p = subprocess.run([sys.executable, "-c", code], capture_output=True, text=True, env=env, cwd=VERIF, timeout=900)
    line = [l for l in p.stdout.splitlines() if l.startswith("C20CHILD ")]
    if p.returncode != 0 or not line:
        raise RuntimeError(f"child interpreter failed: rc={p.returncode} {p.stderr[-800:]}")
    cov = Counter()
    V = {}
    for r in json.loads(line[0][len("C20CHILD "):]):
        for k, v in r["cov"].items():
            cov[k] += v
        for v in r["violations"]:
            sig = v["sig"] + ":host-filter"
            V.setdefault(sig, {"sig": sig, "msg": f"host application installed \"{case['host']}\" before importing the library: " + v["msg"]})
        cov["runs_under_host_warning_filters"] += 1
    return {"violations": list(V.values()), "cov": dict(cov), "outcome": sha(sorted(V)), "nontrivial": True, "transitions": len(inner) * 2}


def describe(case):
    if case.get("kind") == "host":
        return case
    return {"plan": case["plan"], "log_level": case.get("log_level", "default"), "cfg": {k: case["cfg"][k] for k in ("pi_method", "estimands", "alphas", "features", "model_parameters")}}


def evaluate(case):
    if case.get("kind") == "host":
        return _host_case(case)
    cov = Counter()
    units = S.build_units(case)
    cfg = case["cfg"]
    if cfg.get("tiny_unit"):
        for u in units:
            for k in ("b_dem", "b_gop", "b_turnout", "r_dem", "r_gop", "r_turnout"):
                u[k] *= 1000
        for idx in (2, 5):
            t = [u for u in units if u["role"] == "bg"][idx]
            t.update(b_dem=1, b_gop=0, b_turnout=1, r_dem=1, r_gop=0, r_turnout=1)
        cov["runs_with_a_unit_below_a_millionth_of_the_weight"] += 1
    if cfg.get("single_unit_level"):
        [u for u in units if u["role"] == "bg"][3]["cls"] = "s"
        cov["runs_with_single_unit_fixed_effect_level"] += 1
    pm = cfg["pi_method"]
    V = []

    def viol(kind, msg):
        V.append({"sig": f"C20:{kind}", "msg": msg})

    _SEAM.reset({})
    ref = E.run_estimates(units, cfg)
    ref_calls = list(_SEAM.calls)
    if "error" in ref:
        raise RuntimeError(f"fault-free run failed: {ref}")
    plan = {int(k): v for k, v in case["plan"].items()}
    _SEAM.reset(plan)
    import logging

    lg = logging.getLogger("elexmodel")
    level0 = lg.level
    if case.get("log_level"):
        lg.setLevel(getattr(logging, case["log_level"]))
        cov["runs_with_log_level_" + case["log_level"]] += 1
    try:
        res = E.run_estimates(units, cfg)
    finally:
        lg.setLevel(level0)
    calls = list(_SEAM.calls)
    _SEAM.reset({})
    K = len(cfg["estimands"]) * (1 + 2 * len(cfg["alphas"]))
    n_solves = sum(len(c.get("positions", [])) for c in ref_calls)
    if n_solves != K:
        raise RuntimeError(f"expected {K} per-quantile solves through fit_model, saw {n_solves}")
    delivered = [c for c in calls if c.get("fault")]
    cov["faults_delivered"] += len(delivered)
    for c in delivered:
        cov["fault_" + c["fault"]] += 1
        role = (c["position"] - 1) % (1 + 2 * len(cfg["alphas"]))  # solve order within one estimand: median, then lower/upper per level
        cov["fault_on_" + ("median" if role == 0 else ("lower" if role % 2 == 1 else "upper"))] += 1
    if "error" in res:
        viol(f"run-failed:{res['error'][0]}", f"plan={plan} ({pm}{', elexmodel logger at ' + case['log_level'] if case.get('log_level') else ''}): run raised {res['error']}")
    else:
        # retry discipline
        for i, c in enumerate(calls):
            if not c.get("fault"):
                continue
            if c.get("warning_not_raised"):
                viol("inaccuracy-warning-not-escalated", f"plan={plan}: the inaccuracy warning at fit {c['position']} did not reach the retry branch")
                continue
            nxt = calls[i + 1] if i + 1 < len(calls) else None
            if nxt is None or nxt.get("retry_of") != c["position"]:
                viol("no-retry", f"plan={plan}: no retry observed right after failed fit {c['position']}")
                continue
            diffs = [k for k in ("x", "y", "taus", "weights", "fit_intercept") if nxt[k] != c[k]]
            # same regularisation = same objective up to a positive factor: the failed attempt penalises against
            # weights normalised to sum 1, an un-normalised retry must scale lambda by sum(weights)
            scale = 1.0 if nxt["normalize_weights"] else (nxt["weights_sum"] or 1.0)
            eff_failed = c["lambda_"] / (1.0 if c["normalize_weights"] else (c["weights_sum"] or 1.0))
            eff_retry = nxt["lambda_"] / scale
            if abs(eff_failed - eff_retry) > 1e-9 * max(1.0, abs(eff_failed)):
                diffs.append(f"effective regularisation (failed {eff_failed}, retry {eff_retry})")
            if nxt["unknown_kwargs"]:
                diffs.append("unknown kwargs " + str(nxt["unknown_kwargs"]))
            if diffs:
                viol("retry-differs", f"plan={plan}: retry of fit {c['position']} differs in {diffs}: failed={ {k: c[k] for k in diffs if k in c} } retry={ {k: nxt[k] for k in diffs if k in nxt} }")
            if nxt["normalize_weights"] is not False:
                viol("retry-still-normalised", f"plan={plan}: retry of fit {c['position']} has normalize_weights={nxt['normalize_weights']}")
            cov["retries_checked"] += 1
        # same tables
        worst = 0.0
        for name, tab in ref["ok"].items():
            got = res["ok"].get(name)
            if got is None or got["columns"] != tab["columns"] or len(got["rows"]) != len(tab["rows"]):
                viol("tables-differ", f"plan={plan}: table {name} has a different shape")
                continue
            for ra, rb in zip(tab["rows"], got["rows"]):
                for a, b in zip(ra, rb):
                    if isinstance(a, str) or isinstance(b, str):
                        if a != b:
                            viol("tables-differ", f"plan={plan}: {name}: {a!r} vs {b!r}")
                    else:
                        worst = max(worst, abs(float(a) - float(b)))
        if worst > 1.0:
            viol("tables-differ", f"plan={plan} ({pm}): largest cell difference to the fault-free run is {worst}")
        elif worst > 0:
            cov["runs_off_by_one_vote"] += 1
        else:
            cov["runs_identical_tables"] += 1
    uniq = {}
    for v in V:
        uniq.setdefault(v["sig"], v)
    return {
        "violations": list(uniq.values()),
        "cov": dict(cov),
        "outcome": ("error:" + res["error"][0]) if "error" in res else sha({k: v["rows"] for k, v in res["ok"].items()})[:16],
        "nontrivial": len(delivered) == len(plan) and len(plan) > 0,
        "transitions": 2,
    }


REQUIRED_COUNTERS = {"faults_delivered": 100, "fault_on_median": 10, "fault_on_lower": 10, "fault_on_upper": 10, "runs_with_log_level_INFO": 20, "runs_with_log_level_DEBUG": 20, "runs_under_host_warning_filters": 40, "runs_with_single_unit_fixed_effect_level": 10}
