"""C01 - counted votes conserved, every unit exactly once (E-SCEN)."""
import math

from .. import election as E
from .. import refmodel as R
from .. import scen as S
from ..runner import sha

PROPERTY = "C01"
LEVEL = "model_checking"
RULE = (
    "every scenario = seeded fully-reporting background + a multiset of k probe units over "
    "(status x location) x run configuration (estimator, estimands, aggregate list, policy, threshold); "
    "one real ModelClient.get_estimates per scenario; oracle = dictionary-keyed reference for unit universe, "
    "category, per-group counted votes, group key set and reporting count. non-trivial = at least one probe is "
    "not an ordinary reporting unit (a group exists only through probes, or >= 2 categories present)"
)
ASSUMPTIONS = [
    "probe alphabet and background of mc.scen / mc.election; unit ids unique (the property's premise)",
    "unexpected units are attributed to county/district parsed from their id, to the state given in the feed",
    "classification tables hold modelled units only (pinned by the repository's tests)",
    "runs that raise are counted, not judged, here (C11/C14 judge failures)",
]
SELFCHECK_INDEX = 7


def bounds(tier):
    return {
        "probes_k": "1 (full configuration product) and 2 (covering configurations)" if tier == "quick" else "1,2 full; 3 nonparametric",
        "estimators": list(S.ESTIMATOR_SETUPS),
        "aggregate_lists": list(S.AGG_LISTS) + ["district-office: " + k for k in S.AGG_LISTS_H],
        "policies": ["drop", "zero"],
        "thresholds": [50, 100],
    }


def cases(tier, seed):
    out = []
    types = S.probe_types()
    setups_full = ["np1", "np2", "ga1", "bs1"]
    # k = 1: full product
    for st_loc in types:
        for setup in setups_full:
            aggs = list(S.AGG_LISTS) if setup.startswith("np") or tier == "thorough" else ["pc", "all", "cf_pc"]
            for agg in aggs:
                for policy in ("drop", "zero"):
                    for thr in (50, 100):
                        if tier == "quick" and thr == 50 and setup not in ("np1",):
                            continue
                        out.append(
                            dict(seed=seed, bg=S.bg_for(setup), probes=[list(st_loc)], cfg=S.cfg_for(setup, agg, policy, thr))
                        )
    # k = 2
    ptypes = types if tier == "thorough" else [t for t in types if t[0] not in ("tf_below", "tf_at_lower", "tf_above")]
    pairs = S.multisets(ptypes, 2)
    for i, pr in enumerate(pairs):
        combos = [("np1", "all", "drop", 100), ("np1", "cf_pc", "zero", 50)]
        if tier == "thorough":
            combos += [("np2", "all", "zero", 100), ("ga1", "all", "drop", 100), ("bs1", "all", "zero", 100), ("bs1", "pc_cf", "drop", 50)]
        else:
            # covering: each pair additionally meets one of the slower estimators, fixed by its index
            combos.append([("ga1", "all", "zero", 100), ("bs1", "pc_cf", "drop", 100), ("np2", "pc_cc", "zero", 100)][i % 3])
        for setup, agg, policy, thr in combos:
            out.append(dict(seed=seed, bg=S.bg_for(setup), probes=[list(p) for p in pr], cfg=S.cfg_for(setup, agg, policy, thr)))
    # district office (reduced): districts 1, 10, 2
    dtypes = S.probe_types(statuses=["reporting", "nonrep_partial", "unexpected", "zero_baseline", "missing"], locations=["pop0", "newcounty"])
    for st_loc in dtypes:
        for d in ("1", "10", "7"):
            for setup in ("np1", "np2", "bs1") if tier == "quick" else ("np1", "np2", "ga1", "bs1"):
                for agg in S.AGG_LISTS_H:
                    out.append(
                        dict(
                            seed=seed,
                            bg=S.bg_for(setup),
                            probes=[list(st_loc) + [d]],
                            cfg=S.cfg_for(setup, agg, "zero" if d == "10" else "drop", 100, office="H"),
                        )
                    )
    # feed rows that carry no results yet (NaN): under 'drop' the unit leaves the baseline join and is passed through as
    # unexpected, under 'zero' it counts as 0 votes at 0 percent; either way it must appear exactly once
    for loc in ("pop0", "newcounty", "newstate"):
        for setup in ("np1", "np2", "ga1", "bs1"):
            for policy in ("drop", "zero"):
                for agg in ("all", "pc"):
                    for second in (None, ["nonrep_partial", "pop1"], ["unexpected", "pop0"]):
                        probes = [["nan_result", loc]] + ([second] if second else [])
                        out.append(dict(seed=seed, bg=S.bg_for(setup), probes=probes, cfg=S.cfg_for(setup, agg, policy, 100)))
    # a whole state outside the model, one of whose units has not shown up in the feed at all (under 'zero' it counts as a
    # unit without votes, under 'drop' it is left out)
    for setup in ("np1", "np2", "ga1", "bs1"):
        for policy in ("zero", "drop"):
            for agg in ("all", "pc"):
                for second in (["missing", "newstate"], ["nan_result", "newstate"]):
                    out.append(dict(seed=seed, bg=S.bg_for(setup), probes=[["state_blocklisted", "newstate"], second], cfg=S.cfg_for(setup, agg, policy, 100)))
    # units that are outside the model for one reason *and* have not shown up in the feed (or only as a row without results)
    for st in E.COMPOSITE_STATUSES:
        for loc in ("pop0", "newcounty", "newstate"):
            for setup in ("np1", "np2", "ga1", "bs1"):
                for policy in ("zero", "drop"):
                    for agg in ("all", "pc_cf"):
                        out.append(dict(seed=seed, bg=S.bg_for(setup), probes=[[st, loc]], cfg=S.cfg_for(setup, agg, policy, 100)))
    # a unit counted almost completely: its percentage is a hair below the threshold (it is still outstanding)
    for st in ("nonrep_hair", "nonrep_hair2"):
        for loc in ("pop0", "newcounty"):
            for setup in ("np1", "np2", "ga1", "bs1"):
                for policy in ("drop", "zero"):
                    for thr in (100, 50):
                        cfg = S.cfg_for(setup, "all", policy, thr)
                        out.append(dict(seed=seed, bg=S.bg_for(setup), probes=[[st, loc]], cfg=cfg))
    # a reporting threshold of 0 (every unit in the feed counts as reporting)
    for st_loc in S.probe_types(statuses=["reporting", "nonrep0", "nonrep_partial", "unexpected", "zero_baseline", "missing"], locations=["pop0", "newcounty"]):
        for setup in ("np1", "ga1", "bs1"):
            for policy in ("drop", "zero"):
                out.append(dict(seed=seed, bg=S.bg_for(setup), probes=[list(st_loc)], cfg=S.cfg_for(setup, "all", policy, 0)))
    # two polls of one night: the caller keeps its feed DataFrame and overwrites the counts in place; the second run must
    # report the second poll's counts
    for setup in ("np2", "ga1", "bs1"):
        for agg in ("all", "pc"):
            for same_client in (False, True):
                out.append(dict(kind="polls", seed=seed, bg=S.bg_for(setup), probes=[["nonrep_partial", "pop0"], ["unexpected", "newcounty"]], cfg=S.cfg_for(setup, agg, "drop", 100), same_client=same_client))
                # the baseline file is corrected between the polls (two units were missing from it at first)
                out.append(dict(kind="polls", seed=seed, bg=S.bg_for(setup), probes=[["nonrep_partial", "pop0"], ["unexpected", "newcounty"]], cfg=S.cfg_for(setup, agg, "drop", 100), same_client=same_client, corrected_baseline=True))
    # outlier models enabled (the default of the public API): 24 reporting units, one of them an outlier for both the
    # turnout-factor and the margin model, one for the margin model only
    for setup in ("bs1", "np1", "ga1"):
        for st_loc in S.probe_types(statuses=["reporting", "nonrep_partial", "unexpected", "zero_baseline", "unit_blocklisted"], locations=["pop0", "newcounty"]):
            for which in ("both", "turnout", "margin"):
                cfg = S.cfg_for(setup, "all", "drop", 100)
                cfg["model_parameters"] = dict(cfg["model_parameters"], fit_turnout_outlier_model=which in ("both", "turnout"), fit_margin_outlier_model=which in ("both", "margin"))
                out.append(dict(seed=seed, bg={"n": 24, "layout": "AA2", "wild": 2}, probes=[list(st_loc)], cfg=cfg))
    if tier == "thorough":
        rtypes = S.probe_types(
            statuses=["nonrep_partial", "unexpected", "zero_baseline", "unit_blocklisted", "tf_at_upper", "missing"],
            locations=["pop0", "newcounty", "newstate"],
        )
        for tr in S.multisets(rtypes, 3):
            out.append(dict(seed=seed, bg=S.bg_for("np1"), probes=[list(p) for p in tr], cfg=S.cfg_for("np1", "all", "zero", 100)))
    return S.rotate_row_orders(out)


def describe(case):
    return {"probes": case["probes"], "cfg": {k: case["cfg"][k] for k in ("office", "pi_method", "estimands", "aggregates", "policy", "threshold")}, "bg": case["bg"], "input_row_order": case["cfg"].get("row_order") or "sorted"}


def _close(a, b, rel=1e-9):
    return abs(a - b) <= rel * max(1.0, abs(a), abs(b))


def check_tables(units, cfg, tables, V, cov):
    """Shared with C11.  Appends violation dicts to V."""
    flagged = None
    mp = cfg.get("model_parameters", {})
    if (mp.get("fit_turnout_outlier_model") or mp.get("fit_margin_outlier_model")) and "unit" in cfg["aggregates"]:
        # which units an enabled outlier model flags is taken from the run (first mention); everything else about
        # them - exactly one row, one category, where their votes are counted - is still checked
        flagged = {}
        catcols0 = [c for c in tables["unit_data"]["columns"] if c.startswith("unit_category")]
        for r in E.tab_rows(tables["unit_data"]):
            for c in catcols0:
                if r[c] in R.OUTLIER_CATEGORIES:
                    flagged.setdefault(r["geographic_unit_fips"], r[c])
        cov["outlier_flagged_units"] += len(flagged)
    cats = R.categorize(units, cfg, flagged)
    pm = cfg["pi_method"]

    def viol(kind, msg):
        V.append({"sig": f"C01:{kind}:{pm}", "msg": msg})

    byid_units = {u["id"]: u for u in units}
    # (i)/(ii) unit table
    if "unit" in cfg["aggregates"]:
        rows = E.tab_rows(tables["unit_data"])
        ids = [r["geographic_unit_fips"] for r in rows]
        if sorted(ids) != sorted(cats):
            missing = sorted(set(cats) - set(ids))
            extra = sorted(set(ids) - set(cats))
            dup = sorted({i for i in ids if ids.count(i) > 1})
            viol("unit-universe", f"unit table ids differ from reference: missing={missing} extra={extra} duplicated={dup}")
        catcols = [c for c in tables["unit_data"]["columns"] if c.startswith("unit_category")]
        for r in rows:
            uid = r["geographic_unit_fips"]
            if uid not in cats:
                continue
            vals = {r[c] for c in catcols}
            if len(vals) != 1 or vals != {cats[uid]["category"]}:
                viol("unit-category", f"unit {uid}: category {sorted(map(str, vals))} expected {cats[uid]['category']}")
            if r["reporting"] != cats[uid]["reporting"]:
                viol("unit-reporting-flag", f"unit {uid}: reporting={r['reporting']} expected {cats[uid]['reporting']}")
            for e in cfg["estimands"]:
                if byid_units[uid].get("r_nan") and r[f"results_{e}"] in ("NaN", 0, 0.0):
                    cov["units_without_results"] += 1  # 'no count yet' may be shown as missing or as 0
                    continue
                if r[f"results_{e}"] != R.result_value(cats[uid]["eff"], e):
                    viol("unit-results", f"unit {uid}: results_{e}={r[f'results_{e}']} expected {R.result_value(cats[uid]['eff'], e)}")
    ncat = len({c["category"] for c in cats.values()})
    if ncat >= 3:
        cov["scenarios_with_ge3_categories"] += 1
    # (iii)-(v) aggregate tables
    for level in [a for a in cfg["aggregates"] if a != "unit"]:
        tname = R.LEVEL_TABLE[level]
        cols, ref = R.groups(units, cfg, cats, level)
        rows = E.tab_rows(tables[tname])
        seen = {}
        for r in rows:
            key = tuple(r.get(c) for c in cols)
            if key in seen:
                viol("group-duplicated", f"{tname}: group {key} appears twice")
            seen[key] = r
        if set(seen) != set(ref):
            viol(
                "group-keys",
                f"{tname}: groups differ: missing={sorted(map(str, set(ref) - set(seen)))} extra={sorted(map(str, set(seen) - set(ref)))}",
            )
        for key, g in ref.items():
            if not g["fit"] and not g["predict"]:
                cov["groups_only_passthrough"] += 1
            elif not g["fit"] and g["predict"]:
                cov["groups_only_nonreporting"] += 1
            r = seen.get(key)
            if r is None:
                continue
            for e in cfg["estimands"]:
                got = r[f"results_{e}"]
                if e == "margin":
                    pt = r["pred_turnout"]
                    if isinstance(pt, str):
                        viol("group-not-finite", f"{tname} {key}: pred_turnout={pt} (results_margin={got}; members fit={g['fit']} predict={g['predict']} other={g['passthrough']})")
                        continue
                    exp = 0.0 if pt == 0 else g["results"][e] / pt
                    ok = isinstance(got, (int, float)) and not isinstance(got, str) and _close(float(got), exp)
                else:
                    exp = g["results"][e]
                    ok = not isinstance(got, str) and float(got) == float(exp)
                if not ok:
                    viol("group-results", f"{tname} {key}: results_{e}={got} expected {exp} (members fit={g['fit']} predict={g['predict']} other={g['passthrough']})")
            if float(r["reporting"]) != float(g["reporting"]):
                viol("group-reporting", f"{tname} {key}: reporting={r['reporting']} expected {g['reporting']}")
            cov["groups_checked"] += 1
    return cats


def _polls(case):
    """first poll: every count at about half and nothing complete yet for a third of the units; second poll: the scenario's counts"""
    from collections import Counter

    cov = Counter()
    V = []
    cfg = case["cfg"]
    units2 = S.build_units(case)
    units1 = []
    for i, u in enumerate(units2):
        v = dict(u)
        if i % 3 == 0:
            v.update(r_dem=u["r_dem"] // 2, r_gop=u["r_gop"] // 3, r_turnout=u["r_turnout"] // 2, pev=min(u["pev"], 50.0))
        else:
            v.update(r_dem=int(u["r_dem"] * 0.9), r_gop=int(u["r_gop"] * 0.8), r_turnout=int(u["r_turnout"] * 0.9))
        if case.get("corrected_baseline") and u["role"] == "bg" and i in (1, 4):
            v["in_baseline"] = False
        units1.append(v)
    if case.get("corrected_baseline"):
        cov["polls_with_corrected_baseline"] += 1
    baseline, feed = E.frames(units1, cfg)
    _, feed2 = E.frames(units2, cfg)
    from elexmodel.client import ModelClient

    client = ModelClient()
    a = E.run_estimates(units1, cfg, client=client, frames_override=(baseline, feed))
    if "error" in a:
        cov["runs_raised_" + a["error"][0]] += 1
    else:
        check_tables(units1, cfg, a["ok"], V, cov)
    # the caller overwrites the live columns of its own frame (same row order, same object)
    for c in ("results_turnout", "results_dem", "results_gop", "percent_expected_vote"):
        feed[c] = feed2[c].values
    b = E.run_estimates(units2, cfg, client=client if case["same_client"] else None, frames_override=(E.frames(units2, cfg)[0], feed))
    if "error" in b:
        V.append({"sig": f"C01:second-poll-raised:{cfg['pi_method']}", "msg": f"second poll on the same feed frame raised {b['error']}"})
    else:
        n0 = len(V)
        check_tables(units2, cfg, b["ok"], V, cov)
        for v in V[n0:]:
            v["sig"] = v["sig"].replace("C01:", "C01:second-poll:", 1)
            v["msg"] = "second poll (caller's feed frame updated in place): " + v["msg"]
    cov["two_poll_histories"] += 1
    uniq = {}
    for v in V:
        uniq.setdefault(v["sig"], v)
    return {"violations": list(uniq.values()), "cov": dict(cov), "outcome": sha([sorted(uniq)])[:16], "nontrivial": True, "transitions": 2}


def evaluate(case):
    from collections import Counter

    if case.get("kind") == "polls":
        return _polls(case)
    cov = Counter()
    units = S.build_units(case)
    cfg = case["cfg"]
    res = E.run_estimates(units, cfg)
    V = []
    if "error" in res:
        cov["runs_raised_" + res["error"][0]] += 1
        return {"violations": V, "cov": dict(cov), "outcome": "error:" + res["error"][0], "nontrivial": False, "note": res}
    cov["runs_completed"] += 1
    check_tables(units, cfg, res["ok"], V, cov)
    nontrivial = any(p[0] != "reporting" for p in case["probes"])
    # one violation per signature per case is enough
    uniq = {}
    for v in V:
        uniq.setdefault(v["sig"], v)
    return {
        "violations": list(uniq.values()),
        "cov": dict(cov),
        "outcome": sha({k: v["rows"] for k, v in res["ok"].items()})[:16],
        "nontrivial": nontrivial,
    }


REQUIRED_COUNTERS = {"runs_completed": 500, "groups_only_passthrough": 10, "groups_only_nonreporting": 10, "scenarios_with_ge3_categories": 10, "units_without_results": 50, "outlier_flagged_units": 20, "two_poll_histories": 10}
