"""C11 - an unexpected unit only adds its own votes (pairs of runs: feed vs feed + one row)."""
from collections import Counter

from .. import election as E
from .. import refmodel as R
from .. import scen as S
from ..runner import sha
from . import c02

PROPERTY = "C11"
LEVEL = "model_checking"
ENGINE = "E-SCEN"
TECHNIQUE = "exhaustive enumeration of (base election, extra feed row, aggregate list, estimator) pairs executed on the real client; differential oracle between the two runs, cell by cell"
RULE = (
    "pairs (feed, feed + one row not in the baseline): extra unit in {known state & known county, known state & new county, configured state without "
    "baseline units, state not in the config; district offices: known / unknown district x known / new county} x (percent, votes) in a covering set "
    "(thorough: full 3x3) x every aggregate list of C01 x three estimators x base election with / without other passthrough units / completely reporting. Oracle: the run "
    "completes; the unit table gains exactly one 'unexpected' row; each attributable group's counted votes, prediction and both bounds move by exactly v "
    "(bootstrap: turnout by the two-party votes, margins to (N+m)/(D+w), bounds equal to the keyed recomputation from the draws, and the draws "
    "themselves are unchanged); every other cell of every table is bit-identical; a new group row appears iff the group had no other unit. "
    "non-trivial = every pair (the extra row always changes the input)"
)
ASSUMPTIONS = ["'bit-identical' is relaxed to relative 1e-12 for bootstrap float cells only (BLAS summation order depends on matrix shape); vote counts are compared exactly", "attribution of the extra unit as in C01 (state from the feed, county/district from its id)", "bootstrap draws are read from the documented model state errors_B_1..4"]
SELFCHECK_INDEX = 13
VOTES = {"zero": (0, 0, 0), "small": (3, 2, 6), "large": (3000, 1000, 4100), "large_rhs": (1000, 3000, 4100)}
LOCS = {"known": ("AA", "AAc0"), "newcounty": ("AA", "AAcN"), "emptystate": ("BB", "BBc0"), "alien": ("ZZ", "ZZc0")}


def bounds(tier):
    return {"extra_unit_locations": list(LOCS), "percent_x_votes": "5 covering combinations" if tier == "quick" else "3x3", "aggregate_lists": list(S.AGG_LISTS), "bases": ["plain", "with passthrough probes"]}


def cases(tier, seed):
    out = []
    pv = [(0, "zero"), (50, "small"), (100, "large"), (100, "zero"), (50, "large"), (100, "large_rhs")]
    if tier == "thorough":
        pv = [(p, v) for p in (0, 50, 100) for v in VOTES]
    for setup in ("np2", "ga1", "bs1"):
        for loc in LOCS:
            for pct, votes in pv:
                for agg in S.AGG_LISTS:
                    for base in ("plain", "probes"):
                        if tier == "quick" and setup != "np2" and base == "probes" and agg not in ("all", "pc"):
                            continue
                        out.append({"setup": setup, "office": "G", "loc": loc, "pct": pct, "votes": votes, "agg": agg, "base": base, "seed": seed})
    # the last feed of the night: every baseline unit is reporting, nothing is left to estimate
    for setup in ("np2", "ga1", "bs1"):
        for loc in LOCS:
            for agg in ("all", "pc", "cf_pc"):
                for pct, votes in ((100, "large"), (0, "small")):
                    out.append({"setup": setup, "office": "G", "loc": loc, "pct": pct, "votes": votes, "agg": agg, "base": "complete", "seed": seed})
    # the feed does not carry every baseline unit (policy 'zero' counts the absent ones as units without votes) - as many
    # rows missing as extra, e.g. a renamed precinct
    for setup in ("np2", "ga1", "bs1"):
        for loc in LOCS:
            for agg in ("all", "pc_cf"):
                for pct, votes in ((100, "large"), (50, "small")):
                    for nmiss in (1, 2):
                        out.append({"setup": setup, "office": "G", "loc": loc, "pct": pct, "votes": votes, "agg": agg, "base": "missing", "n_missing": nmiss, "seed": seed})
    # the caller keeps its feed DataFrame between two polls and appends the new row to it
    for setup in ("np2", "ga1", "bs1"):
        for loc in ("known", "newcounty", "emptystate"):
            out.append({"setup": setup, "office": "G", "loc": loc, "pct": 100, "votes": "large", "agg": "pc_cf", "base": "probes", "seed": seed, "reuse_feed": True})
    for setup in ("np1", "ga1", "bs1"):
        for district in ("1", "10", "77"):
            for county in ("AAc0", "AAcN"):
                for agg in S.AGG_LISTS_H:
                    for pct, votes in ((100, "large"), (50, "small")):
                        out.append({"setup": setup, "office": "H", "district": district, "county": county, "pct": pct, "votes": votes, "agg": agg, "base": "plain", "seed": seed})
    # a state with a single (at-large) district in the baseline; the unexpected unit's id names that district or another one
    for setup in ("np1", "ga1", "bs1"):
        for district in ("1", "2"):
            for agg in S.AGG_LISTS_H:
                out.append({"setup": setup, "office": "H", "district": district, "county": "AAc0", "pct": 100, "votes": "large", "agg": agg, "base": "plain", "atlarge": True, "seed": seed})
    return out


def describe(case):
    return case


def _rows(tab, cols):
    out = {}
    for r in E.tab_rows(tab):
        out[tuple(r.get(c) for c in cols)] = r
    return out


def _same_row(ra, rb, pm):
    """bit-identical, except that bootstrap margins/turnout (float sums evaluated by BLAS over matrices whose
    shape changes with the extra row) may differ in the last bits: relative 1e-12 there."""
    if ra == rb:
        return True
    if pm != "bootstrap" or set(ra) != set(rb):
        return False
    for c, x in ra.items():
        y = rb[c]
        if x == y:
            continue
        if isinstance(x, float) and isinstance(y, float) and abs(x - y) <= 1e-12 * max(1.0, abs(x), abs(y)):
            continue
        return False
    return True


def evaluate(case):
    import numpy as np

    cov = Counter()
    V = []
    setup = case["setup"]
    office = case["office"]
    cfg = S.cfg_for(setup, case["agg"], "zero" if case["base"] == "missing" else "drop", 100, office=office)
    pm = cfg["pi_method"]
    w = "twoparty" if pm == "bootstrap" else "turnout"

    def viol(kind, msg):
        if not any(v["sig"] == f"C11:{kind}:{pm}" for v in V):
            V.append({"sig": f"C11:{kind}:{pm}", "msg": f"{ {k: case[k] for k in case if k != 'seed'} }: {msg}"})

    base_units = E.background(case["seed"], office, 24 if office == "H" else 16, "AA2", partial=0 if case["base"] == "complete" else 3)
    if case["base"] == "complete":
        cov["pairs_without_outstanding_units"] += 1
    if case.get("atlarge"):
        for i, u in enumerate(base_units):
            u["district"] = "1"
            u["id"] = f"1_{u['county']}_a{i}"
        cov["at_large_state_pairs"] += 1
    if case["base"] == "missing":
        base_units += [E.make_probe(case["seed"], 0, "nonrep_partial", "pop0", office, weights=w)] + [E.make_probe(case["seed"], 1 + k, "missing", ["pop1", "pop0"][k], office, weights=w) for k in range(case["n_missing"])]
        cov["pairs_with_baseline_units_missing_from_the_feed"] += 1
    if case["base"] == "probes":
        base_units += [E.make_probe(case["seed"], 0, "nonrep_partial", "pop0", office, weights=w), E.make_probe(case["seed"], 1, "zero_baseline", "pop1", office, weights=w), E.make_probe(case["seed"], 2, "unexpected", "newcounty", office, weights=w)]
    d, g, t = VOTES[case["votes"]]
    if office == "H":
        postal, county, district = "AA", case["county"], case["district"]
        uid = f"{district}_{county}_x9"
    else:
        postal, county = LOCS[case["loc"]]
        district = None
        uid = f"{county}_x9"
    extra = E.make_unit(uid, postal, county, "r", district, (0, 0, 0), (d, g, t), case["pct"], 0.0, in_baseline=False, in_feed=True, role="probe")
    if case.get("reuse_feed"):
        import pandas as pd

        baseline, feed = E.frames(base_units, cfg)
        a = E.run_estimates(base_units, cfg, keep_client=True, frames_override=(baseline, feed))
        # second poll: the very same feed object, one row appended (positions: the new id sorts where frames() would put it)
        feed2 = pd.concat([feed, E.frames([extra], cfg)[1]], ignore_index=True).sort_values("geographic_unit_fips").reset_index(drop=True)
        b = E.run_estimates(base_units + [extra], cfg, keep_client=True, frames_override=(E.frames(base_units, cfg)[0], feed2))
        cov["reused_feed_pairs"] += 1
    else:
        a = E.run_estimates(base_units, cfg, keep_client=True)
        b = E.run_estimates(base_units + [extra], cfg, keep_client=True)
    if "error" in a:
        raise RuntimeError(f"base run failed: {a['error']}")
    if "error" in b:
        viol(f"run-failed:{b['error'][0]}", f"adding the unexpected unit made the run raise {b['error']}")
        return {"violations": V, "cov": dict(cov), "outcome": "error:" + b["error"][0], "nontrivial": True, "transitions": 2}
    ta, tb = a["ok"], b["ok"]
    units_b = base_units + [extra]
    cats = R.categorize(units_b, cfg)
    # unit table
    ua = _rows(ta["unit_data"], ["geographic_unit_fips"])
    ub = _rows(tb["unit_data"], ["geographic_unit_fips"])
    if set(ub) - set(ua) != {(uid,)} or set(ua) - set(ub):
        viol("unit-table-rows", f"unit table changed by {sorted(set(ub) ^ set(ua))}, expected exactly one new row {uid}")
    else:
        r = ub[(uid,)]
        cat = [r[c] for c in r if c.startswith("unit_category")]
        if cat != ["unexpected"]:
            viol("unit-category", f"new unit has category {cat}")
    for k, r in ua.items():
        if k in ub and not _same_row(r, ub[k], pm):
            diff = {c: (r[c], ub[k][c]) for c in r if ub[k].get(c) != r[c]}
            viol("other-unit-changed", f"unit {k[0]} changed: {diff}")
            break
    # draws unchanged (bootstrap)
    if pm == "bootstrap":
        ma, mb = a["client"].model, b["client"].model
        for name in ("errors_B_1", "errors_B_2", "errors_B_3", "errors_B_4", "weighted_yz_test_pred", "weighted_z_test_pred"):
            if not np.array_equal(getattr(ma, name), getattr(mb, name)):
                viol("bootstrap-draws-changed", f"model state {name} differs between the two runs (the extra unit influenced the bootstrap itself)")
                break
    # aggregate tables
    for level in [x for x in cfg["aggregates"] if x != "unit"]:
        tname = R.LEVEL_TABLE[level]
        cols = R.key_columns(level, office)
        ra, rb = _rows(ta[tname], cols), _rows(tb[tname], cols)
        key = tuple(R.unit_key(extra, cats[uid], c, cfg) for c in cols)
        attributable = all(k is not None for k in key)
        if pm == "bootstrap" and attributable:
            _, bref = c02.bootstrap_reference(b["client"], units_b, cfg, cats, level, cfg["alphas"][0])
        for k in set(ra) | set(rb):
            if attributable and k == key:
                continue
            if k not in ra or k not in rb:
                viol("group-rows-changed", f"{tname}: group {k} {'appeared' if k not in ra else 'vanished'} although the new unit belongs to {key if attributable else 'no group of this table'}")
            elif not _same_row(ra[k], rb[k], pm):
                diff = {c: (ra[k][c], rb[k][c]) for c in ra[k] if rb[k].get(c) != ra[k][c]}
                viol("other-group-changed", f"{tname}: group {k} (not containing the new unit) changed: {diff}")
        if not attributable:
            cov["levels_not_attributable"] += 1
            continue
        if key not in rb:
            viol("votes-dropped", f"{tname}: no row for the new unit's group {key}")
            continue
        new_group = key not in ra
        cov["new_group_rows" if new_group else "existing_group_rows"] += 1
        rbk = rb[key]
        if pm != "bootstrap":
            for e in cfg["estimands"]:
                v = {"turnout": t, "dem": d}[e]
                for c in [f"results_{e}", f"pred_{e}"] + [f"{x}_{al}_{e}" for al in cfg["alphas"] for x in ("lower", "upper")]:
                    before = 0.0 if new_group else float(ra[key][c])
                    if float(rbk[c]) != before + v:
                        viol("group-not-plus-v", f"{tname} {key}: {c} went {before} -> {rbk[c]}, expected +{v}")
            if float(rbk["reporting"]) != (0.0 if new_group else float(ra[key]["reporting"])):
                viol("group-reporting-changed", f"{tname} {key}: reporting changed")
        else:
            D0 = 0.0 if new_group else float(ra[key]["pred_turnout"])
            N0 = 0.0 if new_group else float(ra[key]["pred_margin"]) * D0
            R0 = 0.0 if new_group else float(ra[key]["results_margin"]) * D0
            D1 = D0 + (d + g)
            expm = 0.0 if D1 == 0 else (N0 + (d - g)) / D1
            expr = 0.0 if D1 == 0 else (R0 + (d - g)) / D1
            if abs(float(rbk["pred_turnout"]) - D1) > 1e-6 * max(1.0, D1):
                viol("turnout-not-plus-w", f"{tname} {key}: pred_turnout {D0} -> {rbk['pred_turnout']}, expected {D1}")
            if abs(float(rbk["pred_margin"]) - expm) > 1e-9 or abs(float(rbk["results_margin"]) - expr) > 1e-9:
                viol("margin-not-updated", f"{tname} {key}: pred_margin={rbk['pred_margin']} results_margin={rbk['results_margin']} expected {expm} / {expr}")
            elo, ehi, _, _ = bref[key]
            al = cfg["alphas"][0]
            if abs(float(rbk[f"lower_{al}_margin"]) - elo) > 1e-7 or abs(float(rbk[f"upper_{al}_margin"]) - ehi) > 1e-7:
                viol("bounds-not-rederived", f"{tname} {key}: bounds ({rbk[f'lower_{al}_margin']},{rbk[f'upper_{al}_margin']}) expected ({elo},{ehi})")
    return {"violations": V, "cov": dict(cov), "outcome": sha({k: v["rows"] for k, v in tb.items()})[:16], "nontrivial": True, "transitions": 2}


REQUIRED_COUNTERS = {"new_group_rows": 100, "existing_group_rows": 100, "levels_not_attributable": 50, "reused_feed_pairs": 6, "pairs_without_outstanding_units": 50, "at_large_state_pairs": 10}
