"""C10 - outstanding and excluded units cannot influence anyone else's estimate (pairs of runs)."""
import json
import os
import shutil
import tempfile
from collections import Counter

from .. import election as E
from .. import refmodel as R
from .. import scen as S
from ..runner import sha

PROPERTY = "C10"
LEVEL = "model_checking"
ENGINE = "E-SCEN"
TECHNIQUE = "exhaustive enumeration of (election, perturbed unit, replacement counts, estimator, outlier setting) on the real client; differential oracle between base and perturbed run, cell by cell; historical client on scratch files"
RULE = (
    "for every perturbed unit in {outstanding-partial at 40% and at 60%, zero-baseline, unit-blocklisted, state-blocklisted, unexpected} x location "
    "{populated county, probe-only county, probe-only state} and every replacement count in {0, 1, x1/2, x3, huge, x0.8, x1.4} (percent unchanged; the last two keep a reporting unit's turnout factor within the limits): base run vs "
    "perturbed run for nonparametric, gaussian and bootstrap (B in {3,10}, fixed effects on/off), outlier models off and on (24 reporting units). "
    "Oracle: every other unit row and every group not containing the unit is bit-identical (bootstrap floats: rel 1e-12); groups containing it move "
    "their counted votes by the delta and (nonparametric) pred/lower/upper by the unit's own row change. Historical clause: two historical result "
    "files differing in the result of one not-yet-reporting unit give identical 'estimates'. non-trivial = the perturbation changed the unit's own row"
)
ASSUMPTIONS = ["percent expected vote of the perturbed unit is unchanged, so it stays below the threshold", "bootstrap float cells: relative 1e-12 (see C11)"]
SELFCHECK_INDEX = 3
PERT = ["zero", "one", "half", "triple", "huge", "p80", "p140"]  # the last two keep a reporting unit's turnout factor inside the limits
HIST_ID = "2095-11-03_USA_G"


def bounds(tier):
    return {"perturbed_statuses": 9, "locations": 3, "replacements": PERT, "estimators": ["np2", "ga1", "bs1 (B=10)", "bs1 (B=3, fixed effects)"], "outlier_models": [False, True]}


def cases(tier, seed):
    out = []
    ptypes = []
    for st in ("nonrep_partial", "nonrep_partial60", "zero_baseline", "unit_blocklisted", "unexpected"):
        for loc in ("pop0", "newcounty", "newstate"):
            ptypes.append((st, loc))
    ptypes.append(("state_blocklisted", "newstate"))
    # outstanding by a fraction of a percent (99.6 with the threshold at 100)
    ptypes += [("nonrep_partial99", "pop0"), ("nonrep_partial99", "newcounty")]
    # a turnout surge (every reporting unit about 1.45 times its baseline): bootstrap turnout draws of the outstanding units
    # sit at the model's naive upper bound, so anything that moves that bound for everybody shows
    ptypes += [("nonrep_partial+surge", "pop0"), ("nonrep_partial+surge", "newcounty")]
    # exactly 50 percent in: the default error bound on the expected-vote percentage (a 0/0 waits there for a zero count)
    ptypes += [("nonrep_partial50", "pop0"), ("nonrep_partial50", "newcounty")]
    for st, loc in ptypes:
        for setup in ("np2", "ga1", "bs1", "bs1fe"):
            for outlier in (False, True):
                if tier == "quick" and outlier and setup in ("ga1", "bs1fe"):
                    continue
                out.append({"kind": "pair", "status": st, "loc": loc, "setup": setup, "outlier": outlier, "seed": seed})
    for est in (["turnout"], ["dem"], ["turnout", "dem"], ["dem", "turnout"], ["gop", "turnout", "dem"]):
        for pm in ("nonparametric", "gaussian"):
            out.append({"kind": "historical", "estimands": est, "pm": pm, "seed": seed})
    # district office with three-part unit ids: an unexpected unit's count may only move its own district / county groups
    for setup in ("np1", "ga1", "bs1"):
        for county in ("AAc0", "AAcN"):
            out.append({"kind": "pair_h", "setup": setup, "county": county, "seed": seed})
    # gaussian, groups that mix own calibration models and fallbacks (structures of C15): the outstanding unit of one
    # county is perturbed, every other county / the other state must not move
    import itertools

    for pat in (["A", "A", "B"], ["A", "A", "A"]):
        for cs in itertools.product([0, 9, 10], repeat=3):
            if tier == "quick" and len(set(cs)) == 1:
                continue
            out.append({"kind": "gstruct", "pattern": pat, "counts": list(cs), "outstanding": [True, True, True], "seed": seed})
    return out


def describe(case):
    return case


def _perturb(u, how):
    v = dict(u)
    f = {"zero": lambda x: 0, "one": lambda x: 1, "half": lambda x: x // 2, "triple": lambda x: 3 * x, "huge": lambda x: 50 * x + 1000, "p80": lambda x: x * 4 // 5, "p140": lambda x: x * 7 // 5}[how]
    v["r_dem"], v["r_gop"] = f(u["r_dem"]), f(u["r_gop"])
    v["r_turnout"] = v["r_dem"] + v["r_gop"] + f(max(0, u["r_turnout"] - u["r_dem"] - u["r_gop"]))
    return v


def _same(ra, rb, pm):
    if ra == rb:
        return True
    if pm != "bootstrap" or set(ra) != set(rb):
        return False
    for c, x in ra.items():
        y = rb[c]
        if x != y and not (isinstance(x, float) and isinstance(y, float) and abs(x - y) <= 1e-12 * max(1.0, abs(x), abs(y))):
            return False
    return True


def _rows(tab, cols):
    return {tuple(r.get(c) for c in cols): r for r in E.tab_rows(tab)}


def _pair_case(case, cov, viol):
    setup = case["setup"]
    fe = setup == "bs1fe"
    cfg = S.cfg_for("bs1" if fe else setup, "all", "drop", 100)
    if fe:
        cfg["model_parameters"] = {"B": 3, "lambda_": 1.0}
        cfg["fixed_effects"] = {"county_classification": ["all"]}
    if case["outlier"]:
        cfg["model_parameters"] = dict(cfg["model_parameters"], fit_margin_outlier_model=True, fit_turnout_outlier_model=True)
    pm = cfg["pi_method"]
    w = "twoparty" if pm == "bootstrap" else "turnout"
    st = case["status"]
    units = E.background(case["seed"], "G", 24, "AA2", partial=2)
    # two wild reporting units so that outlier models have something near their threshold
    for u in units[:2]:
        u["r_dem"], u["r_gop"], u["r_turnout"] = int(u["b_dem"] * 1.7), int(u["b_gop"] * 0.7), int(u["b_turnout"] * 1.45)
    if st.endswith("+surge"):
        for u in units:
            if u["pev"] >= 100:
                f = 1.4 + 0.02 * (sum(map(ord, u["id"])) % 6)
                u["r_dem"], u["r_gop"] = int(u["b_dem"] * f), int(u["b_gop"] * f)
                u["r_turnout"] = u["r_dem"] + u["r_gop"] + 7
        cov["surge_elections"] += 1
    probe = E.make_probe(case["seed"], 0, "nonrep_partial" if st.startswith("nonrep_partial") else st, case["loc"], weights=w)
    if st == "nonrep_partial60":
        probe["pev"] = 60.0
    if st == "nonrep_partial99":
        probe["pev"] = 99.6
    if st == "nonrep_partial50":
        probe["pev"] = 50.0
    units.append(probe)
    units.append(E.make_probe(case["seed"], 1, "nonrep0", "pop1", weights=w))
    # a blocklisted unit that is itself still counting and comes first in the files: taking it out leaves a gap in the
    # row labels of the outstanding units
    gap = E.make_probe(case["seed"], 8, "unit_blocklisted", "pop0", weights=w)
    gap.update(id="AAc0_a0", pev=40.0, r_dem=gap["r_dem"] // 3, r_gop=gap["r_gop"] // 3, r_turnout=gap["r_turnout"] // 3)
    units.append(gap)
    if st == "state_blocklisted":
        # more fully reporting units of the blocklisted state, so that the state is more than a single-unit fixed effect
        for k in (2, 3, 4):
            extra = E.make_probe(case["seed"], k, "state_blocklisted", "newstate", weights=w)
            extra["id"] = f"BBc0_s{k}"
            units.append(extra)
    return _perturb_and_compare(case, cov, viol, units, probe, cfg, st, ("postal_code", "county_fips", "county_classification"))


def _pair_h_case(case, cov, viol):
    cfg = S.cfg_for(case["setup"], "pc_d_cf", "drop", 100, office="H")
    w = "twoparty" if cfg["pi_method"] == "bootstrap" else "turnout"
    units = E.background(case["seed"], "H", 30, "AA2", partial=3)
    probe = E.make_probe(case["seed"], 0, "unexpected", "pop0", "H", "10", weights=w)
    probe.update(id=f"10_{case['county']}_x0", county=case["county"])
    units.append(probe)
    units.append(E.make_probe(case["seed"], 1, "nonrep_partial", "pop1", "H", "2", weights=w))
    cov["district_office_pairs"] += 1
    return _perturb_and_compare(dict(case, outlier=False), cov, viol, units, probe, cfg, "unexpected:district-office", ("postal_code", "district", "county_fips"), office="H")


def _gstruct_case(case, cov, viol):
    from . import c15

    units, groups, cal_pos, train = c15.build(case)
    outs = [u for u in units if u["id"].startswith("v")]
    for u in outs:  # every outstanding unit has a sizeable partial count, so aggregate floors can bind
        u["pev"] = 40.0
        u["r_dem"], u["r_gop"], u["r_turnout"] = 2 * u["b_dem"], 2 * u["b_gop"], 2 * u["b_turnout"]
    probe = outs[0]
    cfg = E.make_cfg(pi_method="gaussian", estimands=["turnout"], alphas=[0.7, 0.9], aggregates=["postal_code", "county_fips", "unit"], features=[])
    return _perturb_and_compare(dict(case, outlier=False), cov, viol, units, probe, cfg, "nonrep_partial:mixed-gaussian-models", ("postal_code", "county_fips"))


def _perturb_and_compare(case, cov, viol, units, probe, cfg, st, levels, office="G"):
    pm = cfg["pi_method"]
    base = E.run_estimates(units, cfg)
    if "error" in base:
        raise RuntimeError(f"base run failed {base['error']}")
    runs = 1
    changed_own = False
    for how in PERT:
        p2 = _perturb(probe, how)
        if (p2["r_dem"], p2["r_gop"], p2["r_turnout"]) == (probe["r_dem"], probe["r_gop"], probe["r_turnout"]):
            continue
        units2 = [p2 if u["id"] == probe["id"] else u for u in units]
        pert = E.run_estimates(units2, cfg)
        runs += 1
        ctx = f"{how}"
        if "error" in pert:
            viol(f"run-failed:{pm}", f"{ctx}: perturbed run raised {pert['error']}")
            continue
        cats = R.categorize(units2, cfg)
        ua, ub = _rows(base["ok"]["unit_data"], ["geographic_unit_fips"]), _rows(pert["ok"]["unit_data"], ["geographic_unit_fips"])
        if set(ua) != set(ub):
            viol(f"unit-set-changed:{pm}", f"{ctx}: unit table rows changed {sorted(set(ua) ^ set(ub))}")
            continue
        for k in ua:
            if k[0] == probe["id"]:
                if ua[k] != ub[k]:
                    changed_own = True
                continue
            if not _same(ua[k], ub[k], pm):
                diff = {c: (ua[k][c], ub[k][c]) for c in ua[k] if ua[k][c] != ub[k].get(c)}
                kind = "other-unit-category" if any(c.startswith("unit_category") or c == "reporting" for c in diff) else "other-unit-changed"
                viol(f"{kind}:{pm}:{st}{':outlier' if case['outlier'] else ''}", f"{ctx}: unit {k[0]} changed although only {probe['id']} ({st}) was perturbed: {diff}")
                break
        own_a, own_b = ua[(probe["id"],)], ub[(probe["id"],)]
        for level in levels:
            tname = R.LEVEL_TABLE[level]
            cols = R.key_columns(level, office)
            ra, rb = _rows(base["ok"][tname], cols), _rows(pert["ok"][tname], cols)
            key = tuple(R.unit_key(p2, cats[probe["id"]], c, cfg) for c in cols)
            inside = all(k is not None for k in key) and not ("county_classification" in cols and cats[probe["id"]]["kind"] == "passthrough")
            if set(ra) != set(rb):
                viol(f"group-set-changed:{pm}", f"{ctx}: {tname} groups changed {sorted(map(str, set(ra) ^ set(rb)))}")
                continue
            for k in ra:
                if inside and k == key:
                    continue
                if not _same(ra[k], rb[k], pm):
                    diff = {c: (ra[k][c], rb[k][c]) for c in ra[k] if ra[k][c] != rb[k].get(c)}
                    viol(f"other-group-changed:{pm}:{st}{':outlier' if case['outlier'] else ''}", f"{ctx}: {tname} {k} does not contain {probe['id']} but changed: {diff}")
                    break
            if inside and pm != "bootstrap":
                for e in cfg["estimands"]:
                    dres = own_b[f"results_{e}"] - own_a[f"results_{e}"]
                    if rb[key][f"results_{e}"] - ra[key][f"results_{e}"] != dres:
                        viol(f"group-counted-delta:{pm}", f"{ctx}: {tname} {key} results_{e} moved by {rb[key][f'results_{e}'] - ra[key][f'results_{e}']}, unit moved by {dres}")
                    cols_e = [f"pred_{e}"] + ([f"{x}_{a}_{e}" for a in cfg["alphas"] for x in ("lower", "upper")] if pm == "nonparametric" else [])
                    for c in cols_e:
                        if rb[key][c] - ra[key][c] != own_b[c] - own_a[c]:
                            viol(f"group-own-row-delta:{pm}", f"{ctx}: {tname} {key} {c} moved by {rb[key][c] - ra[key][c]} but the unit's own {c} moved by {own_b[c] - own_a[c]}")
                cov["containing_group_deltas"] += 1
        cov["pairs"] += 1
    return runs, changed_own


def _historical_case(case, cov, viol):
    from elexmodel.client import HistoricalModelClient

    est = case["estimands"]
    pm = case["pm"]
    units = E.background(case["seed"], "G", 16, "AA2")
    nonrep = [E.make_probe(case["seed"], k, "nonrep0", loc) for k, loc in enumerate(["pop0", "pop1", "newcounty"])]
    for u in nonrep:
        u.pop("status", None)
    units += nonrep
    cfg = E.make_cfg(estimands=est, pi_method=pm, alphas=[0.7], aggregates=["postal_code", "county_fips"])
    rc = E.raw_config(cfg)
    rc[E.ELECTION_ID][0]["historical_election"] = [HIST_ID]
    hist_cfg = {HIST_ID: [dict(rc[E.ELECTION_ID][0], historical_election=[])]}
    baseline, feed = E.frames(units, cfg)
    import random

    rng = random.Random(case["seed"] + 5)

    def hist_frame(bump=None):
        df = baseline.copy()
        res_t, res_d, res_g = [], [], []
        r2 = random.Random(case["seed"] + 99)
        for u in sorted(units, key=lambda u: u["id"]):
            t = int(u["b_turnout"] * (0.9 + r2.random() * 0.3))
            d = int(t * 0.45)
            if bump and u["id"] == bump[0]:
                t, d = t * bump[1] + bump[2], d * bump[1] + bump[2]
            res_t.append(t)
            res_d.append(d)
            res_g.append(t - d - 5 if t - d - 5 > 0 else 0)
        df["results_turnout"], df["results_dem"], df["results_gop"] = res_t, res_d, res_g
        return df

    def run(hist_df):
        scratch = tempfile.mkdtemp(prefix="mc_c10_")
        cwd0 = os.getcwd()
        try:
            os.chdir(scratch)
            os.makedirs("config")
            os.makedirs(f"data/{HIST_ID}/G")
            json.dump(json.loads(json.dumps(rc)), open(f"config/{E.ELECTION_ID}.json", "w"))
            json.dump(hist_cfg, open(f"config/{HIST_ID}.json", "w"))
            hist_df.to_csv(f"data/{HIST_ID}/G/data_precinct.csv", index=False)
            out = HistoricalModelClient().get_historical_evaluation(
                feed, E.ELECTION_ID, "G", list(est), [0.7], 100, "precinct", aggregates=["postal_code", "county_fips"], pi_method=pm, save_output=[],
                features=[E.FEATURE], model_parameters={"fit_margin_outlier_model": False, "fit_turnout_outlier_model": False},
            )
            return {k: E.table_to_obj(v) for k, v in out[HIST_ID]["estimates"].items()}
        finally:
            os.chdir(cwd0)
            shutil.rmtree(scratch, ignore_errors=True)

    try:
        base = run(hist_frame())
    except Exception as e:
        viol(f"historical-run-raised:{pm}", f"estimands={est}: the historical evaluation raised {type(e).__name__}: {str(e)[:200]}")
        return 1, True
    runs = 1
    for target in nonrep:
        for mult, add in ((0, 0), (3, 0), (1, 1), (40, 1000)):
            other = run(hist_frame((target["id"], mult, add)))
            runs += 1
            if other != base:
                diffs = [t for t in base if base[t] != other.get(t)]
                viol(f"historical-leak:{pm}", f"estimands={est}: changing the historical result of not-yet-reporting unit {target['id']} (x{mult}+{add}) changed estimates tables {diffs}")
            cov["historical_pairs"] += 1
    # sanity: a *reporting* unit's historical result must matter (non-vacuity of the comparison)
    rep_id = [u["id"] for u in units if u["role"] == "bg"][0]
    if run(hist_frame((rep_id, 3, 0))) == base:
        viol(f"historical-vacuous:{pm}", "changing a reporting unit's historical result changed nothing: the comparison is vacuous")
    runs += 1
    return runs, True


def evaluate(case):
    cov = Counter()
    V = []

    def viol(kind, msg):
        sig = f"C10:{kind}"
        if not any(v["sig"] == sig for v in V):
            V.append({"sig": sig, "msg": f"{ {k: case[k] for k in case if k != 'seed'} }: {msg}"})

    if case["kind"] == "pair":
        runs, nontriv = _pair_case(case, cov, viol)
    elif case["kind"] == "gstruct":
        runs, nontriv = _gstruct_case(case, cov, viol)
    elif case["kind"] == "pair_h":
        runs, nontriv = _pair_h_case(case, cov, viol)
    else:
        runs, nontriv = _historical_case(case, cov, viol)
    return {"violations": V, "cov": dict(cov), "outcome": sha([v["sig"] for v in V] + [runs]), "nontrivial": nontriv, "transitions": runs}


REQUIRED_COUNTERS = {"pairs": 300, "containing_group_deltas": 200, "historical_pairs": 30, "district_office_pairs": 6, "surge_elections": 6}
