"""C05 - with no covariates the model is uniform swing by the weighted median (closed form)."""
import itertools
from collections import Counter
from fractions import Fraction

from .. import election as E
from .. import refmodel as R
from ..runner import sha

PROPERTY = "C05"
LEVEL = "model_checking"
ENGINE = "E-SCEN"
RULE = (
    "every multiset of n reporting units (n in 3..N) over (baseline+1 = w in {10,20,50}) x (counted = {4,12,30,80} * w/10), with four outstanding "
    "units (baseline+1 in {13,27,50,7}, partial counts 0 / small / huge / 1, so products are fractional), unit types county and precinct, wide and default turnout-factor limits, and (n = 3) the estimand pair [dem, turnout] with different swings in one run; one real get_estimates each (input files sorted by unit id, baseline file reversed, or both files shuffled, in rotation), no "
    "features, no fixed effects. Oracle in exact rationals: m = w-weighted median of (counted-w)/w over the modelled reporting units; every outstanding "
    "unit's pred = max(round(w_i(1+m)), partial_i). Scenarios whose weighted median is not unique are counted and skipped. non-trivial = weighted and "
    "unweighted median differ, or the floor binds, or m<0"
)
ASSUMPTIONS = ["half-integer products are accepted at either neighbour (numerical policy of DESIGN.md 3.4)"]
W = [10, 20, 50]
MULT = [4, 12, 30, 80]  # turnout factors about 0.4 / 1.2 / 3 / 8: the first and the last two are outside the default limits (0.5, 2), inside the wide ones
SELFCHECK_INDEX = 9


def bounds(tier):
    return {"n_reporting": "3..4" if tier == "quick" else "3..6", "weights": W, "counted_multipliers": MULT}


def cases(tier, seed):
    types = [(w, k) for w in W for k in MULT] + [(20, "x2")]  # "x2": counted exactly twice the baseline turnout (turnout factor exactly at the default upper limit)
    out = []
    nmax = 4 if tier == "quick" else 6
    for n in range(3, nmax + 1):
        combos = list(itertools.combinations_with_replacement(range(len(types)), n))
        for i in range(0, len(combos), 25):
            for ut in ("precinct", "county"):
                if tier == "quick" and n == 4 and ut == "county" and (i // 25) % 2:
                    continue
                out.append({"combos": [[types[j] for j in c] for c in combos[i : i + 25]], "unit_type": ut, "limits": "wide" if (i // 25) % 3 else "default"})
                if ut == "precinct" and (n == 3 or tier == "thorough"):
                    # two vote-count estimands with different swings in the same run: each must follow its own median
                    out.append({"combos": [[types[j] for j in c] for c in combos[i : i + 25]], "unit_type": ut, "limits": "wide", "estimands": ["dem", "turnout"]})
                    if (i // 25) % 2 == 0:
                        # the configuration points the 'dem' estimand at another baseline column (baseline_dem_pres)
                        out.append({"combos": [[types[j] for j in c] for c in combos[i : i + 25]], "unit_type": ut, "limits": "wide", "estimands": ["dem", "turnout"], "pointer": True})
    return out


def describe(case):
    return {"unit_type": case["unit_type"], "limits": case["limits"], "first_combo": case["combos"][0], "n_combos": len(case["combos"])}


def weighted_median(pairs):
    """pairs: [(value Fraction, weight int)] -> (median or None if not unique)"""
    pairs = sorted(pairs)
    total = sum(w for _, w in pairs)
    acc = 0
    for i, (v, w) in enumerate(pairs):
        acc += w
        if 2 * acc == total:
            nxt = pairs[i + 1][0] if i + 1 < len(pairs) else v
            return None if nxt != v else v
        if 2 * acc > total:
            return v
    return None


def evaluate(case):
    cov = Counter()
    V = []
    outs = []
    runs = 0
    nontrivial = False

    def viol(kind, msg):
        if not any(v["sig"] == f"C05:{kind}" for v in V):
            V.append({"sig": f"C05:{kind}", "msg": msg})

    ut = case["unit_type"]
    for ci, combo in enumerate(case["combos"]):
        units = []
        ests = case.get("estimands", ["turnout"])
        for i, (w, k) in enumerate(combo):
            counted = 2 * (w - 1) if k == "x2" else k * w // 10
            uid = f"AAc{i % 2}_r{i}" if ut == "precinct" else f"AA{i:03d}"
            # dem swings by a different multiplier than turnout (only observable when dem is an estimand)
            kd = MULT[((MULT.index(k) if k in MULT else 1) + 1 + i) % len(MULT)]
            rdem = counted // 2 if len(ests) == 1 else min(counted, kd * (w // 3 + 1) // 10)
            units.append(E.make_unit(uid, "AA", f"AAc{i % 2}" if ut == "precinct" else uid, "r", None, (w // 3, w // 3, w - 1), (rdem, (counted - rdem) // 2, counted), 100.0))
        for j, (w, partial) in enumerate([(13, 0), (27, 3), (50, 500), (7, 1)]):
            uid = f"AAc{j % 2}_n{j}" if ut == "precinct" else f"AA9{j:02d}"
            units.append(E.make_unit(uid, "AA", f"AAc{j % 2}" if ut == "precinct" else uid, "u", None, (w // 3, w // 3, w - 1), (partial // 2, partial // 3, partial), 40.0 if partial else 0.0))
        if ci % 2:
            for j in range(3):
                w2 = 30 + 10 * j
                units.append(E.make_unit(f"ZZc0_z{j}" if ut == "precinct" else f"ZZ{j:03d}", "ZZ", "ZZc0" if ut == "precinct" else f"ZZ{j:03d}", "r", None, (w2 // 3, w2 // 3, w2 - 1), (w2, w2 // 2, int(1.9 * (w2 - 1))), 100.0))
            cov["runs_with_baseline_units_of_other_states"] += 1
        if case.get("pointer"):
            for i, u in enumerate(units):
                u["extra_baseline"] = {"baseline_dem_pres": u["b_dem"] + 2 + (i % 3)}
            cov["baseline_pointer_runs"] += 1
        mp = {"turnout_factor_lower": 0.0, "turnout_factor_upper": 1000.0} if case["limits"] == "wide" else {}
        cfg = E.make_cfg(estimands=list(ests), alphas=[0.5], unit_type=ut, model_parameters=mp, aggregates=["postal_code", "unit"])
        if case.get("pointer"):
            cfg["baseline_pointer"] = {"dem": "dem_pres", "gop": "gop", "turnout": "turnout"}
        # the order of the rows of the two input files carries no information: sorted / baseline reversed / both shuffled
        cfg["row_order"] = [None, {"baseline": "reversed"}, {"baseline": "scattered", "feed": "reversed"}][ci % 3]
        if cfg["row_order"]:
            cov["runs_with_unsorted_input_rows"] += 1
        res = E.run_estimates(units, cfg)
        runs += 1
        cats = R.categorize(units, cfg)
        fit = [u for u in units if cats.get(u["id"], {}).get("kind") == "fit"]
        if "error" in res:
            if res["error"][0] == "ModelNotEnoughSubunitsException" and len(fit) < 3:
                cov["too_few_modelled_units"] += 1
                continue
            viol("run-raised", f"combo={combo} {ut}: {res['error']}")
            continue
        rows = {r["geographic_unit_fips"]: r for r in E.tab_rows(res["ok"]["unit_data"])}
        m = None
        def base(u, est):
            if est == "dem" and case.get("pointer"):
                return u["extra_baseline"]["baseline_dem_pres"]
            return u[f"b_{est}"]

        for est in ests:
            pairs = [(Fraction(u[f"r_{est}"] - (base(u, est) + 1), base(u, est) + 1), base(u, est) + 1) for u in fit]
            m = weighted_median(pairs)
            if m is None:
                cov["nonunique_median_skipped"] += 1
                continue
            um = sorted(p[0] for p in pairs)[(len(pairs) - 1) // 2] if len(pairs) % 2 else None
            if len(ests) > 1:
                cov["two_estimand_medians"] += 1
            for u in units:
                c = cats.get(u["id"])
                if c is None or c["kind"] != "predict":
                    continue
                w = base(u, est) + 1
                x = w * (1 + m)
                got = rows[u["id"]][f"pred_{est}"]
                partial = u[f"r_{est}"]
                ok = (got == partial and x <= partial + Fraction(1, 2)) or (got >= partial and R.half_tolerant_round_ok(x, int(got)) and int(got) == got)
                if got == partial and partial > 0 and x < partial:
                    cov["floor_binds"] += 1
                    nontrivial = True
                if not ok:
                    viol(f"not-uniform-swing:{est}" if len(ests) > 1 else "not-uniform-swing", f"combo={combo} {ut} limits={case['limits']} estimands={ests}: unit {u['id']} w={w} partial={partial}: pred_{est}={got}, expected max(round({float(x):.6f}), {partial}) with weighted median m={m}")
                cov["predictions_checked"] += 1
        if m is None:
            continue
        if um is not None and um != m:
            cov["weighted_differs_from_unweighted"] += 1
            nontrivial = True
        if m < 0:
            cov["negative_swing"] += 1
            nontrivial = True
        if len(fit) < len(combo):
            cov["reporting_unit_excluded_from_fit"] += 1
        outs.append(str(m))
    return {"violations": V, "cov": dict(cov), "outcome": sha(outs)[:16], "nontrivial": nontrivial, "transitions": runs}


REQUIRED_COUNTERS = {"predictions_checked": 1000, "weighted_differs_from_unweighted": 50, "floor_binds": 100, "negative_swing": 100, "reporting_unit_excluded_from_fit": 20, "two_estimand_medians": 200, "baseline_pointer_runs": 50, "runs_with_unsorted_input_rows": 500, "runs_with_baseline_units_of_other_states": 500}
