"""C07 - race calls and call-stops are always honoured; contradictory calls are rejected."""
import itertools
from collections import Counter

from .. import election as E
from .. import scen as S
from ..runner import sha

PROPERTY = "C07"
LEVEL = "model_checking"
ENGINE = "E-SEAM+E-SCEN"
TECHNIQUE = "complete decision table: every (sign pattern of lower/pred/upper) x (call, stop) status for pairs (thorough: triples) of contests injected into the real aggregate prediction/interval methods; every invalid list; every status assignment of two states through the real client"
RULE = (
    "(a) top-level aggregate of 3 contests whose bootstrap state is injected so that, before adjustment, each contest's (lower, pred, upper) takes every "
    "pattern over pred in {-0.3,-0.003,0,0.003,0.3}, lower in {-0.5,-0.004,0,0.002,0.1}, upper in {-0.1,-0.002,0,0.004,0.5} with lower < pred < upper, "
    "crossed with call in {left,right,none} x stop in {yes,no} per contest, alphas {0.7,0.9}; every (pattern,status) on the first contest x every (pattern,status) on the second (quick: every 4th pattern there), third "
    "contest cycling (thorough: all triples over a reduced pattern set). Oracle = the statement row by row; uncalled, unstopped rows bit-identical to the "
    "run with empty lists. (b) every way of naming a contest for both parties or naming an unknown contest in each of the three lists, state and district "
    "contests => BootstrapElectionModelException. (c) real client, every (call, stop) assignment of two states (36) with and without finer aggregates, the three lists handed over as list / tuple / set / frozenset in rotation, and of a third contest that exists only through an unexpected unit without votes (0/0 margin); a district office with every (call, stop) assignment of two of its six contests, judged on both tables that list contests; every two-run history of a driver that keeps its three list objects and edits them between runs (36 x 2 stop lists), judged against the caller's own copy of its lists. "
    "non-trivial = at least one contest is called or stopped"
)
ASSUMPTIONS = ["B = 2 draws are enough to realise any (lower, pred, upper) target because the interval is pred minus two order statistics of the draws"]
PRED = [-0.3, -0.003, 0.0, 0.003, 0.3]
LOW = [-0.5, -0.004, 0.0, 0.002, 0.1]
UP = [-0.1, -0.002, 0.0, 0.004, 0.5]
STATUS = [(c, s) for c in ("none", "left", "right") for s in (False, True)]
W = 1000.0
S_ROW_ORDERS = [None, {"baseline": "reversed", "feed": "reversed"}, {"baseline": "scattered"}]
SELFCHECK_INDEX = 3


def patterns():
    out = []
    for p in PRED:
        for lo in LOW:
            for up in UP:
                if lo <= p - 0.001 and up >= p + 0.001:
                    out.append((lo, p, up))
    return out


def bounds(tier):
    return {"patterns": len(patterns()), "statuses": len(STATUS), "contests": "pairs embedded in 3" if tier == "quick" else "pairs + triples over reduced patterns", "alphas": [0.7, 0.9]}


def cases(tier, seed):
    out = []
    combos = [(pi, si) for pi in range(len(patterns())) for si in range(len(STATUS))]
    second = range(len(combos)) if tier == "thorough" else [i for i in range(len(combos)) if (i // len(STATUS)) % 4 == 0]
    pairs = [(a, b) for a in range(len(combos)) for b in second]
    chunk = 400
    for i in range(0, len(pairs), chunk):
        out.append({"kind": "table", "items": [[combos[a], combos[b]] for a, b in pairs[i : i + chunk]]})
    if tier == "thorough":
        red = [(pi, si) for pi in range(0, len(patterns()), 4) for si in range(len(STATUS))]
        triples = list(itertools.product(range(len(red)), repeat=3))
        for i in range(0, len(triples), chunk):
            out.append({"kind": "table", "items": [[red[a], red[b], red[c]] for a, b, c in triples[i : i + chunk]]})
    out.append({"kind": "validation"})
    for finer in (False, True):
        for sa in range(len(STATUS)):
            for sb in range(len(STATUS)):
                out.append({"kind": "client", "finer": finer, "status": [sa, sb], "seed": seed})
    # the end of the night: every modelled unit is reporting
    for sa in range(len(STATUS)):
        for sb in range(len(STATUS)):
            out.append({"kind": "client", "finer": False, "status": [sa, sb], "complete": True, "seed": seed})
    # a contest that exists only through an unexpected unit without any votes yet (0/0 margin), called or stopped
    for sc in range(len(STATUS)):
        out.append({"kind": "client", "finer": False, "status": [0, 0], "empty_contest": sc, "seed": seed})
    # district office: the contests are (state, district) pairs and both the 'postal_code' and the 'district' table list them
    for sa in range(len(STATUS)):
        for sb in range(len(STATUS)):
            out.append({"kind": "client_h", "status": [sa, sb], "seed": seed})
    # an election-night driver: the caller keeps its three list objects for the whole night and edits them between runs;
    # every two-run history over (AA: none/left/right) x (BB: none/left) with a fixed stop list
    hstates = [(a, b) for a in ("none", "left", "right") for b in ("none", "left")]
    for stop in (["AA"], ["AA", "BB"]):
        for first in hstates:
            for second in hstates:
                out.append({"kind": "client_history", "stop": stop, "steps": [list(first), list(second)], "seed": seed})
    for bad in ("both", "unknown_lhs", "unknown_rhs", "unknown_stop"):
        for office in ("G", "H"):
            out.append({"kind": "client_invalid", "bad": bad, "office": office, "seed": seed})
    return out


def describe(case):
    c = dict(case)
    if "items" in c:
        c["items"] = f"{len(case['items'])} contest tuples of ((pattern index, status index), ...), first {case['items'][0]}"
    return c


def _check_row(name, call, stop, pred, lo, hi, ref, viol, ctx, cov):
    if call == "left":
        cov["rows_called_left"] += 1
        if not pred >= 0.005:
            viol("called-left-pred", f"{ctx}: contest {name} called left but pred={pred}")
        if not stop and not lo >= 0:
            viol("called-left-lower-negative", f"{ctx}: contest {name} called left (not stopped) but lower={lo}")
    elif call == "right":
        cov["rows_called_right"] += 1
        if not pred <= -0.005:
            viol("called-right-pred", f"{ctx}: contest {name} called right but pred={pred}")
        if not stop and not hi <= 0:
            viol("called-right-upper-positive", f"{ctx}: contest {name} called right (not stopped) but upper={hi}")
    elif stop:
        cov["rows_stopped"] += 1
        if not (lo <= 0 <= hi):
            viol("stopped-interval-excludes-zero", f"{ctx}: contest {name} is stop-listed and not called but interval [{lo},{hi}] excludes 0")
    else:
        cov["rows_untouched"] += 1
        if ref is not None and (pred, lo, hi) != ref:
            viol("untouched-contest-changed", f"{ctx}: contest {name} neither called nor stopped but (pred,lower,upper)={(pred, lo, hi)} != {ref} of the run with empty lists")
    if stop and call != "none":
        cov["rows_called_and_stopped"] += 1


def _table(case, cov, viol):
    import numpy as np
    import pandas as pd

    from elexmodel.models.BootstrapElectionModel import BootstrapElectionModel

    pats = patterns()
    names = ["AA", "BB", "CC"]
    nonrep = pd.DataFrame({"postal_code": names, "geographic_unit_fips": ["a", "b", "c"], "results_margin": [0.0] * 3, "reporting": [0] * 3,
                           "baseline_dem": [500.0] * 3, "baseline_gop": [450.0] * 3, "baseline_turnout": [1000.0] * 3})
    rep = pd.DataFrame({"postal_code": pd.Series([], dtype=str), "geographic_unit_fips": pd.Series([], dtype=str), "baseline_weights": pd.Series([], dtype=float),
                        "results_normalized_margin": pd.Series([], dtype=float), "turnout_factor": pd.Series([], dtype=float), "results_margin": pd.Series([], dtype=float),
                        "pred_margin": pd.Series([], dtype=float), "results_weights": pd.Series([], dtype=float), "reporting": pd.Series([], dtype=int),
                        "baseline_dem": pd.Series([], dtype=float), "baseline_gop": pd.Series([], dtype=float), "baseline_turnout": pd.Series([], dtype=float)})
    unx = rep[["postal_code", "geographic_unit_fips", "results_margin", "pred_margin", "results_weights", "reporting", "baseline_dem", "baseline_gop", "baseline_turnout"]].copy()
    m = BootstrapElectionModel({"features": ["baseline_normalized_margin"], "B": 2})
    m.ran_bootstrap = True
    runs = 0
    nontrivial = False
    for k, item in enumerate(case["items"]):
        item = [tuple(x) for x in item]
        if len(item) == 2:
            third = ((k * 7) % len(pats), (k * 5) % len(STATUS))
            item = item + [third]
        trip = [(pats[pi], STATUS[si]) for pi, si in item]
        d = np.zeros((3, 2))
        for j, ((lo, p, up), _) in enumerate(trip):
            dmin = p - up
            mean = p - lo
            d[j] = [dmin, 2 * mean - dmin]
        m.errors_B_1 = d * W
        m.errors_B_2 = np.zeros((3, 2))
        m.errors_B_3 = np.full((3, 2), W)
        m.errors_B_4 = np.full((3, 2), W)
        m.weighted_yz_test_pred = np.array([[t[0][1] * W] for t in trip])
        m.weighted_z_test_pred = np.full((3, 1), W)
        nr = nonrep.assign(pred_margin=m.weighted_yz_test_pred.flatten())
        lhs = [names[j] for j, t in enumerate(trip) if t[1][0] == "left"]
        rhs = [names[j] for j, t in enumerate(trip) if t[1][0] == "right"]
        stp = [names[j] for j, t in enumerate(trip) if t[1][1]]
        if lhs or rhs or stp:
            nontrivial = True
        ctx = f"contests (lower,pred,upper | call,stop) = {trip}"
        try:
            out = {}
            for lists in ("empty", "lists"):
                kw = dict(lhs_called_contests=lhs, rhs_called_contests=rhs) if lists == "lists" else dict(lhs_called_contests=[], rhs_called_contests=[])
                agg = m.get_aggregate_predictions(rep, nr, unx, ["postal_code"], "margin", **kw)
                for a in (0.7, 0.9):
                    iv = m.get_aggregate_prediction_intervals(rep, nr, unx, ["postal_code"], a, None, "margin", stop_model_call=(stp if lists == "lists" else []), **kw)
                    runs += 1
                    for j, st in enumerate(agg.postal_code):
                        out[(lists, a, st)] = (float(agg.pred_margin[j]), float(np.asarray(iv.lower).flatten()[j]), float(np.asarray(iv.upper).flatten()[j]))
        except Exception as e:
            viol("valid-lists-raised", f"{ctx}: {type(e).__name__}: {e}")
            continue
        for j, ((lo0, p0, up0), (call, stop)) in enumerate(trip):
            for a in (0.7, 0.9):
                base = out[("empty", a, names[j])]
                if abs(base[0] - p0) > 1e-9 or abs(base[1] - lo0) > 1e-9 or abs(base[2] - up0) > 1e-9:
                    raise RuntimeError(f"injection failed: wanted {(lo0, p0, up0)} got {base}")
                pred, lo, hi = out[("lists", a, names[j])]
                _check_row(names[j], call, stop, pred, lo, hi, base, viol, ctx + f" alpha={a}", cov)
    cov["decision_rows"] += len(case["items"]) * 3
    return runs, nontrivial


def _validation(case, cov, viol):
    from elexmodel.models.BootstrapElectionModel import BootstrapElectionModel, BootstrapElectionModelException

    m = BootstrapElectionModel({"features": ["baseline_normalized_margin"]})
    runs = 0
    for contests in (["AA", "BB", "CC"], ["AA_1", "AA_10", "BB_2"]):
        known = contests[:2]
        for lhs, rhs, what in (
            ([known[0]], [known[0]], "both"),
            (known, [known[1]], "both"),
            (["XX"], [], "unknown-lhs"),
            ([], ["XX_9"], "unknown-rhs"),
            ([known[0], "XX"], [known[1]], "unknown-lhs"),
        ):
            runs += 1
            try:
                m._format_called_contests(lhs, rhs, contests, 1, 0, -1)
                viol(f"invalid-lists-accepted:{what}", f"contests={contests} lhs={lhs} rhs={rhs}: no exception")
            except BootstrapElectionModelException:
                cov["invalid_lists_rejected"] += 1
        for lhs, rhs in (([], []), ([known[0]], [known[1]]), (known, [])):
            runs += 1
            v = m._format_called_contests(lhs, rhs, contests, 1, 0, -1)
            exp = [1 if c in lhs else (0 if c in rhs else -1) for c in contests]
            if list(v) != exp:
                viol("call-vector-wrong", f"contests={contests} lhs={lhs} rhs={rhs}: vector {list(v)} expected {exp}")
    return runs, True


def _client(case, cov, viol):
    if case.get("complete"):
        units = E.background(case["seed"], "G", 20, "AABB", partial=0)
        cov["complete_election_runs"] += 1
    else:
        units = E.background(case["seed"], "G", 20, "AABB", partial=4)
        units.append(E.make_probe(case["seed"], 0, "nonrep_partial", "pop0", weights="twoparty"))
    aggs = ["postal_code", "county_fips", "unit"] if case["finer"] else ["postal_code", "unit"]
    sa, sb = STATUS[case["status"][0]], STATUS[case["status"][1]]
    contests = [("AA", sa), ("BB", sb)]
    if "empty_contest" in case:
        units.append(E.make_unit("CCc0_z0", "CC", "CCc0", "r", None, (0, 0, 0), (0, 0, 0), 0.0, in_baseline=False, in_feed=True, role="probe"))
        contests.append(("CC", STATUS[case["empty_contest"]]))
        cov["empty_contest_runs"] += 1
    lhs = [n for n, s in contests if s[0] == "left"]
    rhs = [n for n, s in contests if s[0] == "right"]
    stp = [n for n, s in contests if s[1]]
    base_cfg = E.make_cfg(pi_method="bootstrap", estimands=["margin"], features=["baseline_normalized_margin"], alphas=[0.7, 0.9], aggregates=aggs, model_parameters={"B": 10, "lambda_": 1.0})
    # the files may list the states in any order (contest names and interval rows have to be matched by name)
    order = S_ROW_ORDERS[(case["status"][0] + 2 * case["status"][1]) % len(S_ROW_ORDERS)]
    if order:
        base_cfg["row_order"] = order
        cov["client_runs_with_unsorted_input_rows"] += 1
    cfg = dict(base_cfg, lhs=lhs, rhs=rhs, stop=stp)
    a = E.run_estimates(units, base_cfg)
    # the kind of collection the three lists arrive in is not information (list / tuple / set / frozenset)
    cont = (list, tuple, set, frozenset)[(case["status"][0] + 3 * case["status"][1] + int(case["finer"])) % 4]
    cov[f"client_runs_lists_as_{cont.__name__}"] += 1
    b = E.run_estimates(units, cfg, kwargs_override={"lhs_called_contests": cont(lhs), "rhs_called_contests": cont(rhs), "stop_model_call": cont(stp)})
    ctx = f"client finer={case['finer']} input_row_order={order or 'sorted'} lists_as={cont.__name__} " + " ".join(f"{n}={st}" for n, st in contests)
    if "error" in a:
        raise RuntimeError(a)
    if "error" in b:
        viol("valid-lists-raised", f"{ctx}: {b['error']}")
        return 2, True
    ra = {r["postal_code"]: r for r in E.tab_rows(a["ok"]["state_data"])}
    rb = {r["postal_code"]: r for r in E.tab_rows(b["ok"]["state_data"])}
    for name, (call, stop) in contests:
        for al in (0.7, 0.9):
            ref = (ra[name]["pred_margin"], ra[name][f"lower_{al}_margin"], ra[name][f"upper_{al}_margin"])
            _check_row(name, call, stop, rb[name]["pred_margin"], rb[name][f"lower_{al}_margin"], rb[name][f"upper_{al}_margin"], ref, viol, ctx + f" alpha={al}", cov)
    for t in ("county_data", "unit_data"):
        if t in a["ok"] and a["ok"][t] != b["ok"][t]:
            viol("finer-table-changed-by-lists", f"{ctx}: table {t} differs from the run with empty lists")
    cov["client_runs"] += 1
    return 2, bool(lhs or rhs or stp)


def _client_h(case, cov, viol):
    units = E.background(case["seed"], "H", 30, "AABB", partial=6)
    units.append(E.make_probe(case["seed"], 0, "nonrep_partial", "pop0", "H", "10", weights="twoparty"))
    sa, sb = STATUS[case["status"][0]], STATUS[case["status"][1]]
    contests = [("AA_1", sa), ("BB_10", sb)]
    lhs = [n for n, s in contests if s[0] == "left"]
    rhs = [n for n, s in contests if s[0] == "right"]
    stp = [n for n, s in contests if s[1]]
    base_cfg = E.make_cfg(office="H", pi_method="bootstrap", estimands=["margin"], features=["baseline_normalized_margin"], alphas=[0.7, 0.9], aggregates=["postal_code", "district", "unit"], model_parameters={"B": 10, "lambda_": 1.0})
    cfg = dict(base_cfg, lhs=lhs, rhs=rhs, stop=stp)
    a = E.run_estimates(units, base_cfg)
    b = E.run_estimates(units, cfg)
    ctx = "client district office " + " ".join(f"{n}={st}" for n, st in contests)
    if "error" in a:
        raise RuntimeError(a)
    if "error" in b:
        viol("valid-lists-raised", f"{ctx}: {b['error']}")
        return 2, True
    status = dict(contests)
    for tname in ("state_data", "district_data"):
        ra = {f"{r['postal_code']}_{r['district']}": r for r in E.tab_rows(a["ok"][tname])}
        rb = {f"{r['postal_code']}_{r['district']}": r for r in E.tab_rows(b["ok"][tname])}
        if set(ra) != set(rb):
            viol("contest-rows-changed", f"{ctx}: {tname} lists {sorted(rb)} with the lists, {sorted(ra)} without")
            continue
        for name in ra:
            call, stop = status.get(name, ("none", False))
            for al in (0.7, 0.9):
                ref = (ra[name]["pred_margin"], ra[name][f"lower_{al}_margin"], ra[name][f"upper_{al}_margin"])
                _check_row(name, call, stop, rb[name]["pred_margin"], rb[name][f"lower_{al}_margin"], rb[name][f"upper_{al}_margin"], ref, viol, ctx + f" {tname} alpha={al}", cov)
            cov["district_office_contest_rows"] += 1
    cov["client_runs"] += 1
    return 2, bool(lhs or rhs or stp)


def _client_history(case, cov, viol):
    """The caller's own picture of its lists (plain copies never handed to the library) is the reference: run k must treat
    every contest as the caller listed it for run k."""
    units = E.background(case["seed"], "G", 20, "AABB", partial=4)
    units.append(E.make_probe(case["seed"], 0, "nonrep_partial", "pop0", weights="twoparty"))
    base_cfg = E.make_cfg(pi_method="bootstrap", estimands=["margin"], features=["baseline_normalized_margin"], alphas=[0.7, 0.9], aggregates=["postal_code", "unit"], model_parameters={"B": 10, "lambda_": 1.0})
    a = E.run_estimates(units, base_cfg)
    if "error" in a:
        raise RuntimeError(a)
    ra = {r["postal_code"]: r for r in E.tab_rows(a["ok"]["state_data"])}
    lhs, rhs, stp = [], [], list(case["stop"])  # the objects handed to every run
    runs = 1
    for k, (sa, sb) in enumerate(case["steps"]):
        want = {"AA": sa, "BB": sb}
        # the caller edits its long-lived lists in place
        for lst, side in ((lhs, "left"), (rhs, "right")):
            for name in ("AA", "BB"):
                if want[name] == side and name not in lst:
                    lst.append(name)
                elif want[name] != side and name in lst:
                    lst.remove(name)
        ref_stop = list(case["stop"])
        b = E.run_estimates(units, base_cfg, kwargs_override={"lhs_called_contests": lhs, "rhs_called_contests": rhs, "stop_model_call": stp})
        runs += 1
        ctx = f"driver history stop={case['stop']} steps={case['steps']} run {k + 1}"
        if "error" in b:
            viol("valid-lists-raised", f"{ctx}: {b['error']}")
            return runs, True
        rb = {r["postal_code"]: r for r in E.tab_rows(b["ok"]["state_data"])}
        for name in ("AA", "BB"):
            for al in (0.7, 0.9):
                ref = (ra[name]["pred_margin"], ra[name][f"lower_{al}_margin"], ra[name][f"upper_{al}_margin"])
                _check_row(name, want[name], name in ref_stop, rb[name]["pred_margin"], rb[name][f"lower_{al}_margin"], rb[name][f"upper_{al}_margin"], ref, viol, ctx + f" alpha={al}", cov)
        cov["history_runs"] += 1
    return runs, True


def _client_invalid(case, cov, viol):
    office = case["office"]
    units = E.background(case["seed"], office, 24, "AABB", partial=4)
    aggs = ["postal_code", "unit"] if office == "G" else ["postal_code", "district", "unit"]
    known = ["AA", "BB"] if office == "G" else ["AA_1", "BB_10"]
    bad = case["bad"]
    lists = {"both": (known[:1], known[:1], []), "unknown_lhs": (["QQ"], [], []), "unknown_rhs": ([], ["QQ_3"], []), "unknown_stop": ([], [], ["QQ"])}[bad]
    cfg = E.make_cfg(office=office, pi_method="bootstrap", estimands=["margin"], features=["baseline_normalized_margin"], alphas=[0.9], aggregates=aggs, model_parameters={"B": 5, "lambda_": 1.0},
                     lhs=lists[0], rhs=lists[1], stop=lists[2])
    r = E.run_estimates(units, cfg)
    if "error" not in r:
        viol(f"invalid-lists-accepted:{bad}", f"client office={office} lhs={lists[0]} rhs={lists[1]} stop={lists[2]}: estimates were produced")
    elif r["error"][0] != "BootstrapElectionModelException":
        viol(f"invalid-lists-wrong-error:{bad}", f"client office={office}: raised {r['error']}")
    else:
        cov["client_invalid_rejected"] += 1
    return 1, True


def evaluate(case):
    cov = Counter()
    V = []

    def viol(kind, msg):
        if not any(v["sig"] == f"C07:{kind}" for v in V):
            V.append({"sig": f"C07:{kind}", "msg": str(msg)[:900]})

    fn = {"table": _table, "validation": _validation, "client": _client, "client_h": _client_h, "client_history": _client_history, "client_invalid": _client_invalid}[case["kind"]]
    runs, nontrivial = fn(case, cov, viol)
    return {"violations": V, "cov": dict(cov), "outcome": sha([v["sig"] for v in V] + [case["kind"]]), "nontrivial": nontrivial, "transitions": max(1, runs)}


REQUIRED_COUNTERS = {"decision_rows": 10000, "rows_called_left": 1000, "rows_called_right": 1000, "rows_stopped": 1000, "rows_untouched": 1000, "rows_called_and_stopped": 500, "invalid_lists_rejected": 8, "client_runs": 50, "client_invalid_rejected": 6, "empty_contest_runs": 6, "history_runs": 100, "district_office_contest_rows": 200, "complete_election_runs": 30, "client_runs_with_unsorted_input_rows": 40}
