"""C08 - the national summary is bounded, ordered, and depends only on the contests (E-HIST + E-SEAM)."""
import itertools
from collections import Counter, deque

from .. import election as E
from ..runner import sha

PROPERTY = "C08"
LEVEL = "model_checking"
ENGINE = "E-HIST+E-SEAM"
TECHNIQUE = "explicit-state breadth-first search over histories of aggregate computations on the real model object (states rebuilt by replay, deduplicated by a fingerprint of the registers the summary reads, invariant evaluated in every state); every ordered aggregate list through the real client; exhaustive enumeration of bootstrap outcomes through the real summary method"
RULE = (
    "(a1) real client: every ordered list of distinct levels from {postal_code, county_fips, county_classification} that contains the contest level (11) x "
    "alpha lists {[0.9],[0.7,0.9],[0.9,0.7]} x hard/soft threshold x correlation on/off x 4 call/stop assignments; after each run the summary with weights "
    "None / explicit / every wrong size from empty to one entry too many. Invariant: equal to the summary after the history [contest level] alone, never raises, wrong size raises the dedicated "
    "error. (a2) BFS to depth D over operations agg(level) applied directly to the model after a contest-level run; the summary is evaluated in every "
    "reached state. (b) real get_national_summary_estimates with injected registers: 2 contests (thorough 3), B=2, per contest draws in "
    "{(-.1,-.1),(-.1,.1),(.1,.1),(.001,-.001)}^2, point margin in {-.1,-.001,.001,.1} consistent with its call, weights {1,3}, base {0,10}, six call/stop "
    "statuses, both threshold and correlation modes: lower<=pred<=upper; hard threshold => base<=lower, upper<=base+sum(weights), pred=base+sum(weights "
    "of contests with positive reported margin); draws of a called, not stop-listed contest change neither bound; a second evaluation on the same state returns the same. (a3) real client with a third, completely counted contest whose two-party vote is exactly tied (reported margin 0.0): prediction = base + weights of the contests with a positive reported margin. non-trivial = history has more than one "
    "aggregate computation / some contest is called, stopped or has draws disagreeing with its point prediction"
)
ASSUMPTIONS = ["'called contests contribute no uncertainty' is asserted for called and not stop-listed contests (a stop overrides a call, as in C07)"]
LEVELS = ["postal_code", "county_fips", "county_classification"]
DRAWS = [(-0.1, -0.1), (-0.1, 0.1), (0.1, 0.1), (0.001, -0.001)]
PM = [-0.1, -0.001, 0.001, 0.1]
STATUS = [(c, s) for c in ("none", "left", "right") for s in (False, True)]
SELFCHECK_INDEX = 2


def bounds(tier):
    return {"a1_aggregate_lists": 11, "a2_bfs_depth": 2 if tier == "quick" else 3, "b_contests": 2 if tier == "quick" else 3, "b_B": 2}


def _agg_lists():
    out = []
    for r in range(1, 4):
        for p in itertools.permutations(LEVELS, r):
            if "postal_code" in p:
                out.append(list(p))
    return out


def cases(tier, seed):
    out = []
    calls = [("none", "none"), ("left", "none"), ("stop", "right"), ("leftstop", "stop")]
    for lv in _agg_lists():
        for alphas in ([0.9], [0.7, 0.9], [0.9, 0.7]):
            for hard in (True, False):
                for corr in (True, False):
                    for ca in calls:
                        if tier == "quick" and alphas != [0.9] and (not hard) and ca != ("none", "none"):
                            continue
                        out.append({"kind": "client", "levels": lv, "alphas": alphas, "hard": hard, "corr": corr, "calls": list(ca), "seed": seed})
                        if alphas == [0.9] and ca in (("none", "none"), ("left", "none")):
                            # a third contest that exists only among units outside the model (its whole state is blocklisted)
                            out.append({"kind": "client", "levels": lv, "alphas": alphas, "hard": hard, "corr": corr, "calls": list(ca), "seed": seed, "passthrough_state": True})
    # district office: 'postal_code' and 'district' are both computed as the (postal_code, district) contest level
    hl = ["postal_code", "district", "county_fips"]
    hlists = [list(p) for r in range(1, 4) for p in itertools.permutations(hl, r) if "postal_code" in p or "district" in p]
    for lv in hlists:
        for calls in ("none", "all_left", "all_right"):
            out.append({"kind": "client_h", "levels": lv, "calls": calls, "seed": seed})
    # a completely counted contest that ends in an exact two-party tie (reported margin exactly 0): its weight is not
    # part of the prediction
    for corr in (True, False):
        for lv in (["postal_code"], ["postal_code", "county_fips"], ["county_fips", "postal_code"]):
            for calls in (("none", "none"), ("left", "none"), ("right", "stop")):
                out.append({"kind": "client_tie", "levels": lv, "corr": corr, "calls": list(calls), "seed": seed})
    for hard in (True, False):
        for corr in (True, False):
            out.append({"kind": "bfs", "depth": 2 if tier == "quick" else 3, "hard": hard, "corr": corr, "seed": seed})
    ncont = 2 if tier == "quick" else 3
    per = [(d1, d2) for d1 in range(4) for d2 in range(4)]
    firsts = [(p, s) for p in range(4) for s in range(6) if _consistent(PM[p], STATUS[s])]
    for hard in (True, False):
        for corr in (True, False):
            for base in (0, 10):
                for f in firsts:
                    out.append({"kind": "seam", "hard": hard, "corr": corr, "base": base, "first": list(f), "ncont": ncont})
    return out


def _consistent(pm, status):
    if status[0] == "left":
        return pm >= 0.005
    if status[0] == "right":
        return pm <= -0.005
    return True


def describe(case):
    return case


def _election(seed, unexpected=True, passthrough_state=False):
    units = E.background(seed, "G", 20, "AABB", partial=5)
    units.append(E.make_probe(seed, 0, "nonrep_partial", "pop0", weights="twoparty"))
    if unexpected:
        units.append(E.make_probe(seed, 1, "unexpected", "newcounty", weights="twoparty"))
    if passthrough_state:
        for k in range(3):
            u = E.make_probe(seed, 10 + k, "reporting", "pop0", weights="twoparty")
            u.update(id=f"CCc0_q{k}", postal="CC", county="CCc0", status="state_blocklisted")
            units.append(u)
    return units


def _lists(calls):
    lhs, rhs, stp = [], [], []
    for name, c in zip(("AA", "BB"), calls):
        if c.startswith("left"):
            lhs.append(name)
        if c.startswith("right"):
            rhs.append(name)
        if c.endswith("stop"):
            stp.append(name)
    return lhs, rhs, stp


def _cfg(levels, alphas, hard, corr, calls, states=("AA", "BB")):
    lhs, rhs, stp = _lists(calls)
    return E.make_cfg(
        states=list(states),
        pi_method="bootstrap", estimands=["margin"], features=["baseline_normalized_margin"], alphas=alphas, aggregates=levels + ["unit"],
        model_parameters={"B": 10, "lambda_": 1.0, "agg_model_hard_threshold": hard, "national_summary_correlation": corr}, lhs=lhs, rhs=rhs, stop=stp,
    )


def _summaries(client, viol, ctx, cov, third=False):
    """summary with weights None / explicit / wrong size; returns the two tables (or error strings)."""
    from elexmodel.models.BootstrapElectionModel import BootstrapElectionModelException

    out = []
    explicit = {"AA": 3, "BB": 5, "CC": 7} if third else {"AA": 3, "BB": 5}
    for name, d in (("none", None), ("explicit", explicit)):
        try:
            tab = client.get_national_summary_votes_estimates(d, 7, [0.7, 0.9])
            out.append(E.table_to_obj(tab)["rows"])
        except Exception as e:
            out.append(f"raised {type(e).__name__}: {str(e)[:120]}")
    n = 3 if third else 2
    names = ["AA", "BB", "CC", "DD"]
    for size in range(0, n + 2):  # every dictionary size from empty to one entry too many, except the right one
        if size == n:
            continue
        try:
            client.get_national_summary_votes_estimates({c: 1 for c in names[:size]}, 0, [0.9])
            viol("wrong-size-weights-accepted", f"{ctx}: a weight dictionary with {size} entries for {n} contests was accepted")
        except BootstrapElectionModelException:
            cov["wrong_size_rejected"] += 1
            cov[f"wrong_size_{'empty' if size == 0 else 'short' if size < n else 'long'}_rejected"] += 1
        except Exception as e:
            viol("wrong-size-weights-wrong-error", f"{ctx}: a weight dictionary with {size} entries for {n} contests raised {type(e).__name__}: {str(e)[:150]}")
    return out


def _client_case(case, cov, viol):
    third = bool(case.get("passthrough_state"))
    units = _election(case["seed"], passthrough_state=third)
    states = ("AA", "BB", "CC") if third else ("AA", "BB")
    ref_cfg = _cfg(["postal_code"], case["alphas"], case["hard"], case["corr"], case["calls"], states)
    cfg = _cfg(case["levels"], case["alphas"], case["hard"], case["corr"], case["calls"], states)
    ctx = f"levels={case['levels']} alphas={case['alphas']} hard={case['hard']} corr={case['corr']} calls={case['calls']} passthrough_only_contest={third}"
    a = E.run_estimates(units, ref_cfg, keep_client=True)
    if "error" in a:
        raise RuntimeError(a["error"])
    ref = _summaries(a["client"], viol, ctx + " [reference history]", Counter(), third)
    b = E.run_estimates(units, cfg, keep_client=True)
    if "error" in b:
        viol("run-raised", f"{ctx}: {b['error']}")
        return 2, True
    got = _summaries(b["client"], viol, ctx, cov, third)
    if third:
        cov["passthrough_only_contest_runs"] += 1
        for name, r in zip(("weights=None", "explicit weights"), ref):
            if isinstance(r, str):
                viol("summary-raised-with-passthrough-only-contest", f"{ctx} {name}: {r}")
    for name, r, g in zip(("weights=None", "explicit weights"), ref, got):
        if isinstance(g, str):
            viol("summary-raised-after-finer-aggregates", f"{ctx} {name}: {g} (after the contest level alone: {r})")
        elif g != r:
            viol("summary-depends-on-aggregate-history", f"{ctx} {name}: summary {g} but {r} after the contest level alone")
        elif not isinstance(r, str):
            _order(r, viol, ctx + " " + name)
    cov["client_histories"] += 1
    return 2, len(case["levels"]) > 1


H_CONTESTS = ["AA_1", "AA_10", "AA_2", "BB_1", "BB_10", "BB_2"]


def _client_h_case(case, cov, viol):
    units = E.background(case["seed"], "H", 30, "AABB", partial=6)
    units.append(E.make_probe(case["seed"], 0, "nonrep_partial", "pop0", "H", "10", weights="twoparty"))
    # a unit the baseline does not know: its district (part of the contest) has to come from its id whatever was requested
    units.append(E.make_probe(case["seed"], 1, "unexpected", "newcounty", "H", "2", weights="twoparty"))
    lhs = H_CONTESTS if case["calls"] == "all_left" else []
    rhs = H_CONTESTS if case["calls"] == "all_right" else []

    def cfg(levels):
        return E.make_cfg(office="H", pi_method="bootstrap", estimands=["margin"], features=["baseline_normalized_margin"], alphas=[0.9], aggregates=levels + ["unit"],
                          model_parameters={"B": 10, "lambda_": 1.0}, lhs=list(lhs), rhs=list(rhs), stop=[])

    weights = {c: i + 1 for i, c in enumerate(H_CONTESTS)}
    ctx = f"district office levels={case['levels']} calls={case['calls']}"

    def summary(levels):
        r = E.run_estimates(units, cfg(levels), keep_client=True)
        if "error" in r:
            return f"run raised {r['error']}", None
        try:
            tab = r["client"].get_national_summary_votes_estimates(dict(weights), 2, [0.7, 0.9])
            return E.table_to_obj(tab)["rows"], r["ok"]
        except Exception as e:
            return f"raised {type(e).__name__}: {str(e)[:120]}", r["ok"]

    ref, ref_tabs = summary(["district"])
    got, tabs = summary(case["levels"])
    if isinstance(ref, str):
        raise RuntimeError(ref)
    if isinstance(got, str):
        viol("summary-raised-after-finer-aggregates", f"{ctx}: {got}")
    elif got != ref:
        viol("summary-depends-on-aggregate-history", f"{ctx}: summary {got} but {ref} after the district level alone")
    else:
        _order(got, viol, ctx)
        # hard threshold (default): prediction = base + weights of contests whose reported margin is positive
        tname = "district_data" if "district" in case["levels"] else "state_data"
        rows = E.tab_rows(tabs[tname])
        exp = 2 + sum(weights[f"{r['postal_code']}_{r['district']}"] for r in rows if r["pred_margin"] > 0)
        if got[0][1] != exp:
            viol("summary-pred-not-sum-of-winners", f"{ctx}: prediction {got[0][1]} but base + weights of contests with a positive reported margin = {exp}")
    cov["district_office_histories"] += 1
    if case["calls"] != "none":
        cov["district_office_histories_with_calls"] += 1
    return 2, True


def _client_tie_case(case, cov, viol):
    units = _election(case["seed"])
    for k, (d, g) in enumerate([(60, 40), (40, 60), (550, 450), (450, 550), (33, 33)]):
        units.append(E.make_unit(f"DDc{k % 2}_t{k}", "DD", f"DDc{k % 2}", "r", None, (d + 5, g - 3, d + g + 20), (d, g, d + g + 7), 100.0, 0.3))
    cfg = _cfg(case["levels"], [0.9], True, case["corr"], case["calls"], ("AA", "BB", "DD"))
    weights = {"AA": 3, "BB": 5, "DD": 16}
    ctx = f"tied contest DD levels={case['levels']} corr={case['corr']} calls={case['calls']}"
    r = E.run_estimates(units, cfg, keep_client=True)
    if "error" in r:
        viol("run-raised", f"{ctx}: {r['error']}")
        return 1, True
    margins = {row["postal_code"]: row["pred_margin"] for row in E.tab_rows(r["ok"]["state_data"])}
    if margins.get("DD") == 0.0:
        cov["exactly_tied_contests"] += 1
    try:
        tab = E.table_to_obj(r["client"].get_national_summary_votes_estimates(dict(weights), 2, [0.7, 0.9]))["rows"]
    except Exception as e:
        viol("summary-raised-with-tied-contest", f"{ctx}: {type(e).__name__}: {str(e)[:150]}")
        return 1, True
    _order(tab, viol, ctx)
    exp = 2 + sum(w for c, w in weights.items() if margins[c] > 0)
    if tab[0][1] != exp:
        viol("summary-pred-not-sum-of-winners", f"{ctx}: prediction {tab[0][1]} but base + weights of contests with a positive reported margin = {exp} (margins {margins})")
    row = tab[0]
    for i in range(2, len(row), 2):
        if not (2 <= row[i] and row[i + 1] <= 2 + sum(weights.values())):
            viol("summary-out-of-range", f"{ctx}: bounds {row} outside [base, base + sum of weights]")
    cov["tied_contest_runs"] += 1
    return 1, True


def _order(rows, viol, ctx):
    # rows: [[estimand, agg_pred, lower_a, upper_a, ...]]
    r = rows[0]
    pred = r[1]
    for i in range(2, len(r), 2):
        if not (r[i] <= pred <= r[i + 1]):
            viol("summary-not-ordered", f"{ctx}: lower {r[i]} pred {pred} upper {r[i + 1]}")


def _fingerprint(model):
    import numpy as np

    parts = []
    for name in ("divided_error_B_1", "divided_error_B_2", "aggregate_pred_margin", "called_contests", "stop_model_call"):
        v = getattr(model, name, None)
        if v is None:
            parts.append((name, None))
        else:
            v = np.asarray(v)
            parts.append((name, v.shape, sha(np.ascontiguousarray(v, dtype=float).tobytes().hex())))
    return sha(parts)


def _bfs_case(case, cov, viol):
    from elexmodel.client import ModelClient  # noqa

    # no unexpected unit here: the model is driven directly, and only the client derives an unexpected unit's county
    units = _election(case["seed"], unexpected=False)
    cfg = _cfg(["postal_code"], [0.9], case["hard"], case["corr"], ["none", "stop"])

    def build(hist):
        r = E.run_estimates(units, cfg, keep_client=True)
        if "error" in r:
            raise RuntimeError(r["error"])
        client = r["client"]
        m = client.model
        rh = client.results_handler
        for level in hist:
            agg = client.get_aggregate_list("G", level)
            m.get_aggregate_predictions(rh.reporting_units, rh.nonreporting_units, rh.unexpected_units, agg, "margin", lhs_called_contests=[], rhs_called_contests=[])
            m.get_aggregate_prediction_intervals(rh.reporting_units, rh.nonreporting_units, rh.unexpected_units, agg, 0.9, None, "margin", lhs_called_contests=[], rhs_called_contests=[], stop_model_call=["BB"])
        return client

    def observe(client):
        out = []
        for d in (None, {"AA": 3, "BB": 5}):
            try:
                out.append(client.model.get_national_summary_estimates(d, 7, 0.9)["margin"])
            except Exception as e:
                out.append(f"raised {type(e).__name__}: {str(e)[:100]}")
        return out

    ref = observe(build([]))
    seen = {}
    frontier = deque([[]])
    transitions = 0
    maxdepth = 0
    while frontier:
        hist = frontier.popleft()
        client = build(hist)
        transitions += len(hist) + 1
        fp = _fingerprint(client.model)
        obs = observe(client)
        if obs != ref:
            kind = "summary-raised-after-finer-aggregates" if any(isinstance(o, str) for o in obs) else "summary-depends-on-aggregate-history"
            viol(kind, f"hard={case['hard']} corr={case['corr']}: after aggregate computations {hist} the summary is {obs}, after none {ref}")
        if fp in seen:
            cov["bfs_states_merged"] += 1
            continue
        seen[fp] = hist
        maxdepth = max(maxdepth, len(hist))
        if len(hist) < case["depth"]:
            for level in LEVELS:
                frontier.append(hist + [level])
    cov["bfs_states"] += len(seen)
    cov["bfs_max_depth"] = max(cov["bfs_max_depth"], maxdepth)
    return transitions, True, len(seen)


def _seam_case(case, cov, viol):
    import numpy as np

    from elexmodel.models.BootstrapElectionModel import BootstrapElectionModel

    n = case["ncont"]
    m = BootstrapElectionModel({"features": ["baseline_normalized_margin"], "B": 2, "agg_model_hard_threshold": case["hard"], "national_summary_correlation": case["corr"]})
    m.n_contests = n  # set by the bootstrap on a real run
    base = case["base"]
    per = [(d1, d2, p, s) for d1 in range(4) for d2 in range(4) for p in range(4) for s in range(6) if _consistent(PM[p], STATUS[s])]
    first = tuple(case["first"])
    firsts = [(d1, d2, first[0], first[1]) for d1 in range(4) for d2 in range(4)]
    weights_sets = [(1, 3), (3, 1)] if n == 2 else [(1, 3, 1)]
    runs = 0
    nontrivial = False
    results = {}
    others = list(itertools.product(per, repeat=n - 1)) if n == 2 else list(itertools.product(per[::5], per[::7]))
    for f in firsts:
        for rest in others:
            cont = [f] + list(rest)
            for wts in weights_sets:
                m.divided_error_B_1 = np.array([DRAWS[c[0]] for c in cont])
                m.divided_error_B_2 = np.array([DRAWS[c[1]] for c in cont])
                m.aggregate_pred_margin = np.array([[PM[c[2]]] for c in cont])
                m.called_contests = np.array([[{"left": 1, "right": 0, "none": -1}[STATUS[c[3]][0]]] for c in cont])
                m.stop_model_call = np.array([[STATUS[c[3]][1]] for c in cont])
                d = {f"c{i}": w for i, w in enumerate(wts)}
                ctx = f"hard={case['hard']} corr={case['corr']} base={base} contests(B1 draws,B2 draws,point margin,(call,stop),weight)={[(DRAWS[c[0]], DRAWS[c[1]], PM[c[2]], STATUS[c[3]], w) for c, w in zip(cont, wts)]}"
                try:
                    pred, lo, hi = m.get_national_summary_estimates(d, base, 0.9)["margin"]
                except Exception as e:
                    viol("summary-raised", f"{ctx}: {type(e).__name__}: {e}")
                    continue
                runs += 1
                if wts == weights_sets[0]:
                    again = m.get_national_summary_estimates(d, base, 0.9)["margin"]
                    if list(again) != [pred, lo, hi]:
                        viol("summary-not-repeatable", f"{ctx}: a second evaluation with the same arguments gives {list(again)} after {[pred, lo, hi]}")
                    cov["repeat_evaluations"] += 1
                if not (lo <= pred <= hi):
                    viol(f"summary-not-ordered:{'correlation' if case['corr'] else 'independent'}", f"{ctx}: lower {lo} pred {pred} upper {hi}")
                if case["hard"]:
                    tot = sum(wts)
                    exp = base + sum(w for c, w in zip(cont, wts) if PM[c[2]] > 0)
                    if pred != exp:
                        viol("summary-pred-not-sum-of-winners", f"{ctx}: pred {pred} expected {exp}")
                    if lo < base or hi > base + tot:
                        viol("summary-out-of-range", f"{ctx}: [{lo},{hi}] outside [{base},{base + tot}]")
                key = (tuple((c[2], c[3]) for c in cont), wts)
                results.setdefault(key, {})[tuple((c[0], c[1]) for c in cont)] = (lo, hi)
                if any(STATUS[c[3]] != ("none", False) for c in cont):
                    nontrivial = True
    # called (not stopped) contests contribute no uncertainty: their draws must not matter
    for (statuses, wts), bydraws in results.items():
        for i, (p, s) in enumerate(statuses):
            call, stop = STATUS[s]
            if call == "none" or stop:
                continue
            groups = {}
            for draws, res in bydraws.items():
                other = tuple(d for j, d in enumerate(draws) if j != i)
                groups.setdefault(other, set()).add(res)
            for other, vals in groups.items():
                cov["called_contest_draw_groups"] += 1
                if len(vals) > 1:
                    viol("called-contest-adds-uncertainty", f"hard={case['hard']} corr={case['corr']}: contest {i} is called {call} (not stopped) but its draws move the bounds: {sorted(vals)[:4]} (statuses {[(PM[a], STATUS[b]) for a, b in statuses]}, weights {wts})")
                    break
    cov["seam_executions"] += runs
    return runs, nontrivial


def evaluate(case):
    cov = Counter()
    V = []

    def viol(kind, msg):
        if not any(v["sig"] == f"C08:{kind}" for v in V):
            V.append({"sig": f"C08:{kind}", "msg": str(msg)[:1000]})

    extra = {}
    if case["kind"] == "client":
        runs, nontrivial = _client_case(case, cov, viol)
    elif case["kind"] == "client_h":
        runs, nontrivial = _client_h_case(case, cov, viol)
    elif case["kind"] == "client_tie":
        runs, nontrivial = _client_tie_case(case, cov, viol)
    elif case["kind"] == "bfs":
        runs, nontrivial, nstates = _bfs_case(case, cov, viol)
        extra["n_states"] = nstates
    else:
        runs, nontrivial = _seam_case(case, cov, viol)
    return dict({"violations": V, "cov": dict(cov), "outcome": sha([v["sig"] for v in V] + [case["kind"]]), "nontrivial": nontrivial, "transitions": max(1, runs)}, **extra)


REQUIRED_COUNTERS = {"client_histories": 100, "bfs_states": 4, "seam_executions": 50000, "wrong_size_rejected": 100, "wrong_size_empty_rejected": 50, "called_contest_draw_groups": 1000, "passthrough_only_contest_runs": 20, "district_office_histories_with_calls": 20, "exactly_tied_contests": 10}
