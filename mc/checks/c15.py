"""C15 - gaussian intervals use a group's own calibration if big enough, else its parent (E-SCEN structures + reference)."""
import itertools
import math
import random
from collections import Counter

from .. import election as E
from ..runner import sha

PROPERTY = "C15"
LEVEL = "model_checking"
ENGINE = "E-SCEN"
TECHNIQUE = "exhaustive enumeration of group structures (calibration-unit counts per county group across one or two states, outstanding units present/absent), realised by solving for the seeded calibration split, executed on the real client; per-group keyed reference recomputation"
RULE = (
    "group structures: 1-3 county groups over the state patterns (A), (A,A), (A,B), (A,A,A), (A,A,B), each with a calibration-unit count from "
    "{0,1,9,10,11} (quick: {0,9,10} for three groups) and outstanding units present/absent (at least one group has them), plus a filler group; the "
    "generator computes which reporting positions the seeded shuffle sends to calibration and assigns groups to positions to realise the counts; one real "
    "gaussian get_estimates per structure (and for six structures with the scale parameter beta in {2, 0.5}, once more with turnout requested after another estimand on the same model object, and once with the calibration data saved) with aggregates [postal_code, county_fips] and alphas {0.7, 0.9}. Oracle per group with outstanding units: exactly "
    "one finite interval; calibration set chosen by the statement's rule (own if >= min(10, n_cal), else state if that has >= threshold, else all); bounds "
    "= summed unadjusted unit bounds -/+ normal quantile at (3+alpha)/4 of (mu*sum w, sigma*sqrt(sum w^2 + inflate*(sum w)^2)), floored at partial counts, "
    "plus counted votes, rounded (+-1 vote). non-trivial = some group falls back to its parent"
)
ASSUMPTIONS = [
    "scipy.stats.bootstrap (seeded, same values in the same order) and scipy.stats.norm.ppf are trusted leaves",
    "the calibration frame and the unadjusted unit bounds are read from the client/model objects (all_conformalization_data_unit_dict per alpha, alpha_to_nonreporting_*_bounds), which is the documented observation point",
]
SELFCHECK_INDEX = 5
SEED_DEFAULT = 4191


def bounds(tier):
    return {"counts": [0, 1, 9, 10, 11], "max_groups": 3, "states": 2, "alphas": [0.7, 0.9], "levels": ["postal_code", "county_fips"]}


def cases(tier, seed):
    out = []
    pats = {1: [("A",)], 2: [("A", "A"), ("A", "B")], 3: [("A", "A", "A"), ("A", "A", "B")]}
    for k in (1, 2, 3):
        counts = [0, 1, 9, 10, 11] if (k < 3 or tier == "thorough") else [0, 9, 10]
        for pat in pats[k]:
            for cs in itertools.product(counts, repeat=k):
                for outs in itertools.product([False, True], repeat=k):
                    if not any(outs):
                        continue
                    if tier == "quick" and k == 3 and sum(outs) == 2 and cs[0] == cs[1] == cs[2]:
                        continue
                    out.append({"pattern": list(pat), "counts": list(cs), "outstanding": list(outs), "seed": seed})
    # non-default scale parameter: every interval width must carry beta exactly once, whatever the fallback depth
    for pat, cs in ((("A",), (9,)), (("A", "A"), (10, 1)), (("A", "B"), (10, 0)), (("A", "A", "B"), (0, 10, 9)), (("A", "A", "B"), (11, 1, 0)), (("A", "A", "A"), (10, 9, 0))):
        for beta in (2, 0.5):
            out.append({"pattern": list(pat), "counts": list(cs), "outstanding": [True] * len(pat), "seed": seed, "beta": beta})
        # the same model object serves another estimand first: the turnout intervals (checked against the reference above)
        # must come out the same when turnout is the second estimand of the request
        out.append({"pattern": list(pat), "counts": list(cs), "outstanding": [True] * len(pat), "seed": seed, "after_other_estimand": True})
        # the caller also asks for the calibration data to be saved (written to the object-store seam): same intervals
        out.append({"pattern": list(pat), "counts": list(cs), "outstanding": [True] * len(pat), "seed": seed, "save_conformalization": True})
    # the classification table of two states whose classes cross: (A, r) and (B, u) have their own model, (A, u) and (B, r)
    # are small and still have outstanding units - group keys have to be matched as pairs, not column by column
    for cs in ((10, 1, 10, 1), (11, 0, 10, 9), (10, 9, 11, 1)):
        out.append({"pattern": ["A", "A", "B", "B"], "counts": list(cs), "outstanding": [True] * 4, "seed": seed, "crossed": True})
    # a silent state: state B has outstanding units only (no reporting unit at all, hence no calibration unit)
    for pat, css in ((("A", "B"), [(9,), (10,), (11,)]), (("A", "A", "B"), [(10, 9), (0, 10), (11, 11), (9, 1)])):
        for cs in css:
            out.append({"pattern": list(pat), "counts": list(cs) + [0], "outstanding": [True] * len(pat), "seed": seed, "silent_state": True})
    return out


def describe(case):
    return case


def _solve_n(C):
    for n in range(7, 400):
        train = max(math.floor(n * 0.7), 1)
        if n - train == C:
            return n, train
    raise RuntimeError(f"no n for {C} calibration units")


def build(case):
    import pandas as pd

    seed = case["seed"]
    groups = []
    for i, (st, c, o) in enumerate(zip(case["pattern"], case["counts"], case["outstanding"])):
        groups.append({"state": "AA" if st == "A" else "BB", "county": f"{'AA' if st == 'A' else 'BB'}c{i}", "cal": c, "out": o})
    total = sum(g["cal"] for g in groups)
    filler = 3 if total < 3 else (2 if total % 5 == 0 else 0)
    if filler:
        groups.append({"state": "AA", "county": "AAfill", "cal": filler, "out": False})
    C = sum(g["cal"] for g in groups)
    n, train = _solve_n(C)
    perm = pd.DataFrame({"i": range(n)}).sample(frac=1, random_state=SEED_DEFAULT)["i"].tolist()
    cal_pos = perm[train:]
    train_pos = perm[:train]
    pos_group = {}
    it = iter(cal_pos)
    for gi, g in enumerate(groups):
        for _ in range(g["cal"]):
            pos_group[next(it)] = gi
    hosts = [gi for gi, g in enumerate(groups) if not (case.get("silent_state") and g["state"] == "BB")]
    for j, p in enumerate(train_pos):
        pos_group[p] = hosts[j % len(hosts)]
    rng = random.Random(seed * 7919 + C)
    units = []
    for p in range(n):
        g = groups[pos_group[p]]
        b = E.random_baseline(rng)
        r = E.plausible_result(rng, b)
        units.append(E.make_unit(f"u{p:03d}", g["state"], g["county"], "r", None, b, r, 100.0, rng.randint(0, 100) / 100.0))
    k = 0
    for gi, g in enumerate(groups):
        if g["out"]:
            for j in range(2):
                b = E.random_baseline(rng)
                r = (0, 0, 0) if j == 0 else (b[0] // 3, b[1] // 3, b[2] // 3 + 2)
                units.append(E.make_unit(f"v{k:03d}", g["state"], g["county"], "r", None, b, r, 0.0 if j == 0 else 40.0, rng.randint(0, 100) / 100.0))
                k += 1
    return units, groups, cal_pos, train


def wmedian(values, weights):
    tot = sum(weights)
    pairs = sorted(zip(values, [w / tot for w in weights]), key=lambda t: t[0])
    cum = 0.0
    cums = []
    for v, w in pairs:
        cum += w
        cums.append(cum)
    if cums[0] > 0.5:
        return pairs[0][0], False
    idx = max(i for i, c in enumerate(cums) if c <= 0.5)
    knife = abs(cums[idx] - 0.5) < 1e-12
    if cums[idx] == 0.5:
        return (pairs[idx][0] + pairs[idx + 1][0]) / 2, knife
    return pairs[idx + 1][0], knife


def _crossed(case, units, groups, cov, viol, V):
    cls_of = {g["county"]: ("r", "u", "u", "r")[i] for i, g in enumerate(groups[:4])}
    for u in units:
        u["cls"] = cls_of.get(u["county"], "r")
    cfg = E.make_cfg(pi_method="gaussian", estimands=["turnout"], alphas=[0.7, 0.9], aggregates=["postal_code", "county_classification", "unit"], features=[])
    res = E.run_estimates(units, cfg)
    if "error" in res:
        viol("run-raised", f"crossed classification groups: {res['error']}")
    else:
        rows = {(r["postal_code"], r["county_classification"]): r for r in E.tab_rows_num(res["ok"]["classification_data"])}
        for key in (("AA", "r"), ("AA", "u"), ("BB", "u"), ("BB", "r")):
            r = rows.get(key)
            if r is None:
                viol("group-missing", f"classification_data: group {key} with outstanding units has no row")
                continue
            for a in (0.7, 0.9):
                lo, up = r[f"lower_{a}_turnout"], r[f"upper_{a}_turnout"]
                if not (math.isfinite(lo) and math.isfinite(up) and lo <= up):
                    viol("interval-not-finite", f"classification_data {key} alpha={a}: ({lo},{up})")
        cov["crossed_classification_structures"] += 1
    return {"violations": V, "cov": dict(cov), "outcome": "crossed", "nontrivial": True}


def evaluate(case):
    import numpy as np
    from scipy import stats
    from scipy.stats import bootstrap

    cov = Counter()
    V = []

    def viol(kind, msg):
        if not any(v["sig"] == f"C15:{kind}" for v in V):
            V.append({"sig": f"C15:{kind}", "msg": f"structure={ {k: case[k] for k in ('pattern', 'counts', 'outstanding')} }: {msg}"[:1100]})

    units, groups, cal_pos, train = build(case)
    if case.get("crossed"):
        return _crossed(case, units, groups, cov, viol, V)
    alphas = [0.7, 0.9]
    beta = case.get("beta", 1)
    cfg = E.make_cfg(pi_method="gaussian", estimands=["turnout"], alphas=alphas, aggregates=["postal_code", "county_fips", "unit"], features=[], model_parameters={"beta": beta} if beta != 1 else {})
    if beta != 1:
        cov["non_default_beta_runs"] += 1
    if case.get("save_conformalization"):
        cfg["save_output"] = ["conformalization"]
        cov["runs_saving_conformalization"] += 1
    if case.get("silent_state"):
        cov["silent_state_structures"] += 1
    res = E.run_estimates(units, cfg, keep_client=True)
    if "error" in res:
        viol("run-raised", f"{res['error']} {res.get('tb', '')[-300:]}")
        return {"violations": V, "cov": dict(cov), "outcome": "error", "nontrivial": True}
    model = res["client"].model
    rh = res["client"].results_handler
    conf = model.conformalization_data_unit
    exp_cal = sorted(f"u{p:03d}" for p in cal_pos)
    if sorted(conf.geographic_unit_fips) != exp_cal:
        raise RuntimeError("generator did not solve the calibration split: " + str(sorted(set(conf.geographic_unit_fips) ^ set(exp_cal))[:5]))
    n_cal = len(exp_cal)
    thr = min(10, n_cal)
    byid = {u["id"]: u for u in units}
    conf_by_alpha = {}
    for alpha in alphas:
        cdf = res["client"].all_conformalization_data_unit_dict[alpha]["turnout"][1]
        conf_by_alpha[alpha] = [dict(id=r.geographic_unit_fips, state=r.postal_code, county=r.county_fips, w=float(r.last_election_results_turnout), lo=float(r.lower_bounds), up=float(r.upper_bounds)) for r in cdf.itertuples(index=False)]
    nonrep = rh.nonreporting_units
    nr_ids = list(nonrep.geographic_unit_fips)
    fallback = False
    for alpha in alphas:
        conf_rows = conf_by_alpha[alpha]
        lo_un = np.asarray(model.alpha_to_nonreporting_lower_bounds[alpha], dtype=float)
        up_un = np.asarray(model.alpha_to_nonreporting_upper_bounds[alpha], dtype=float)
        q = (3 + alpha) / 4
        for level, tname, keyf in (("postal_code", "state_data", lambda u: (u["postal"],)), ("county_fips", "county_data", lambda u: (u["postal"], u["county"]))):
            rows = {}
            for r in E.tab_rows_num(res["ok"][tname]):
                key = (r["postal_code"],) if level == "postal_code" else (r["postal_code"], r["county_fips"])
                if key in rows:
                    viol("group-twice", f"{tname}: group {key} appears twice")
                rows[key] = r
            out_groups = {}
            for i, uid in enumerate(nr_ids):
                out_groups.setdefault(keyf(byid[uid]), []).append(i)
            for key, idxs in out_groups.items():
                r = rows.get(key)
                if r is None:
                    viol("group-missing", f"{tname}: group {key} with outstanding units has no row")
                    continue
                lo, up = r[f"lower_{alpha}_turnout"], r[f"upper_{alpha}_turnout"]
                if not (math.isfinite(lo) and math.isfinite(up)):
                    viol("interval-not-finite", f"{tname} {key} alpha={alpha}: ({lo},{up})")
                    continue
                # calibration set by the statement's rule
                own = [c for c in conf_rows if ((c["state"],) if level == "postal_code" else (c["state"], c["county"])) == key]
                state = [c for c in conf_rows if c["state"] == key[0]]
                if len(own) >= thr:
                    S, used = own, "own"
                elif level == "county_fips" and len(state) >= thr:
                    S, used = state, "state"
                    fallback = True
                else:
                    S, used = conf_rows, "all"
                    fallback = True
                cov[f"{level}_uses_{used}"] += 1
                ws = [c["w"] for c in S]
                mu_l, k1 = wmedian([c["lo"] for c in S], ws)
                mu_u, k2 = wmedian([c["up"] for c in S], ws)
                if k1 or k2:
                    cov["median_knife_edge_skipped"] += 1
                    continue
                if len(S) < 2:
                    cov["single_unit_calibration_skipped"] += 1
                    continue
                infl = sum(w * w for w in ws) / (sum(ws) ** 2)
                sig_l = beta * bootstrap(np.array([c["lo"] for c in S]).reshape(1, -1), lambda x, axis: np.std(x, ddof=1, axis=-1), confidence_level=q, method="basic", n_resamples=10000, random_state=SEED_DEFAULT).confidence_interval.high
                sig_u = beta * bootstrap(np.array([c["up"] for c in S]).reshape(1, -1), lambda x, axis: np.std(x, ddof=1, axis=-1), confidence_level=q, method="basic", n_resamples=10000, random_state=SEED_DEFAULT).confidence_interval.high
                wU = [float(byid[nr_ids[i]]["b_turnout"] + 1) for i in idxs]
                sw, ssw = sum(wU), sum(w * w for w in wU)
                agg_lo = sum(w * lo_un[i] for w, i in zip(wU, idxs))
                agg_up = sum(w * up_un[i] for w, i in zip(wU, idxs))
                sd = math.sqrt(ssw + infl * sw * sw)
                lb = agg_lo - stats.norm.ppf(q, loc=sw * mu_l, scale=sig_l * sd)
                ub = agg_up + stats.norm.ppf(q, loc=sw * mu_u, scale=sig_u * sd)
                partial = sum(byid[nr_ids[i]]["r_turnout"] for i in idxs)
                counted = sum(u["r_turnout"] for u in units if u["pev"] >= 100 and keyf(u) == key)
                elo = max(sw + lb, partial) + counted
                eup = max(sw + ub, partial) + counted
                if not (math.isfinite(elo) and math.isfinite(eup)):
                    cov["reference_not_finite_skipped"] += 1
                    continue
                if abs(lo - elo) > 1.0 or abs(up - eup) > 1.0:
                    # which calibration set would explain the observed bounds?
                    viol(
                        f"bounds-not-from-{used}-calibration:{level}",
                        f"{tname} {key} alpha={alpha}: reported ({lo},{up}), but the {used} calibration set ({len(S)} units; own={len(own)}, state={len(state)}, all={n_cal}, threshold={thr}) gives ({elo:.1f},{eup:.1f})",
                    )
                cov["group_intervals_recomputed"] += 1
    if case.get("after_other_estimand"):
        cfg2 = dict(cfg, estimands=["dem", "turnout"])
        res2 = E.run_estimates(units, cfg2)
        if "error" in res2:
            viol("run-raised", f"estimands ['dem', 'turnout']: {res2['error']}")
        else:
            for tname, kc in (("state_data", ["postal_code"]), ("county_data", ["postal_code", "county_fips"])):
                one = {tuple(r[c] for c in kc): r for r in E.tab_rows(res["ok"][tname])}
                two = {tuple(r[c] for c in kc): r for r in E.tab_rows(res2["ok"][tname])}
                for key, r in one.items():
                    for col in [c for c in r if c.endswith("_turnout") and (c.startswith("lower_") or c.startswith("upper_"))]:
                        if key not in two or two[key][col] != r[col]:
                            viol(f"bounds-differ-when-second-estimand:{tname}", f"{tname} {key} {col}: {two.get(key, {}).get(col)} when turnout is requested after dem, {r[col]} (matching the calibration rule) when requested alone")
                    cov["intervals_compared_as_second_estimand"] += 1
    return {"violations": V, "cov": dict(cov), "outcome": sha({k: v["rows"] for k, v in res["ok"].items() if k != "unit_data"})[:16], "nontrivial": fallback}


REQUIRED_COUNTERS = {"group_intervals_recomputed": 500, "county_fips_uses_own": 50, "county_fips_uses_state": 50, "county_fips_uses_all": 50, "postal_code_uses_own": 50, "postal_code_uses_all": 20, "non_default_beta_runs": 10, "runs_saving_conformalization": 6, "intervals_compared_as_second_estimand": 10, "silent_state_structures": 7, "crossed_classification_structures": 3}
