"""C04 - nonparametric intervals are conformally calibrated.

(a) calibration invariant on every calibration set (real get_unit_prediction_intervals, upstream step stubbed on the instance);
(b) coverage under exchangeability, computed exactly by enumerating every ordering of a finite population through the real model."""
import itertools
import math
from collections import Counter
from fractions import Fraction

from ..runner import sha

PROPERTY = "C04"
LEVEL = "model_checking"
ENGINE = "E-SEAM"
TECHNIQUE = "exhaustive enumeration: (a) every calibration multiset (scores x weights) x alpha x robust through the real interval method; (b) every one of the (n+1)! orderings of every finite population through the real model (fits, seeded split, correction), exact coverage count"
RULE = (
    "(a) n_cal in 1..N, every multiset of (score, weight) pairs over scores {-0.2,0,0.1,0.3} x weights {1,2,5}, alpha in {0.1..0.9,0.95} with "
    "alpha(1+1/n)<=1, robust in {False,True}: one correction is applied symmetrically to both bounds of both outstanding units, the weighted share of "
    "calibration units with score <= correction exceeds alpha(1+1/n), and with robust the correction is also >= the unweighted quantile. "
    "(c) real fits with one covariate, n in {12,20}, every rotation of a fixed residual list against two covariate patterns, alphas {0.5,0.7,0.9}, robust on/off: each reporting unit has an outstanding twin with the same baseline and covariates, and the calibration units' true counts must lie inside the intervals *reported* for their twins with weighted share > alpha(1+1/n_cal). (b) every multiset of n+1 relative changes over {-0.5,0,0.3,3.0}, with no covariate and with a covariate that is a monotone function of the value, "
    "alpha in {0.5,0.6,(0.7)}: all (n+1)! assignments to (n reporting positions, 1 outstanding unit) run through the real model; the number of orderings "
    "whose outstanding unit's true count lies inside its reported interval must be >= alpha (n+1)!. non-trivial = (a) the weighted and the unweighted "
    "correction differ or scores tie; (b) the population is not constant"
)
ASSUMPTIONS = [
    "(a) minimality of the correction is not demanded (the statement does not)",
    "(b) decides the probabilistic clause exactly for finite exchangeable populations of equal baseline; the step to arbitrary exchangeable distributions is the standard conditioning argument, cited not mechanised",
    "the LP solver inside elexsolver is a trusted leaf",
]
SCORES = [-0.2, 0.0, 0.1, 0.3]
WEIGHTS = [1, 2, 5]
ALPHAS = [0.1, 0.2, 0.3, 0.4, 0.5, 0.6, 0.7, 0.8, 0.9, 0.95]
VALUES = [-0.5, 0.0, 0.3, 3.0]
DISTINCT7 = [-0.5, -0.2, 0.0, 0.1, 0.3, 1.0, 3.0]
BIGW = 10**6
SELFCHECK_INDEX = 1


def bounds(tier):
    return {
        "a_n_cal": "1..4" if tier == "quick" else "1..5",
        "a_alphas": ALPHAS,
        "b_populations": "n=4: all 35 multisets x covariate modes x alpha {0.5,0.6} (quick: monotone covariate at 0.5 only); n=5: 6 multisets (quick) / all 56 (thorough); n=6 at alpha 0.7 (exactly the minimum): 3 (quick) / 8 (thorough) populations x 5040 orderings",
    }


def cases(tier, seed):
    out = []
    types = [(s, w) for s in range(len(SCORES)) for w in WEIGHTS]
    nmax = 4 if tier == "quick" else 5
    for n in range(1, nmax + 1):
        ms = list(itertools.combinations_with_replacement(range(len(types)), n))
        for i in range(0, len(ms), 40):
            out.append({"kind": "calib", "sets": [[types[j] for j in m] for m in ms[i : i + 40]]})
    pops4 = list(itertools.combinations_with_replacement(range(len(VALUES)), 5))
    for pop in pops4:
        for cov_mode in ("none", "monotone"):
            for alpha in (0.5, 0.6):
                if tier == "quick" and cov_mode == "monotone" and alpha == 0.6:
                    continue
                out.append({"kind": "coverage", "pop": list(pop), "cov": cov_mode, "alpha": alpha, "n": 4})
    pops5 = list(itertools.combinations_with_replacement(range(len(VALUES)), 6))
    sel5 = pops5 if tier == "thorough" else [p for i, p in enumerate(pops5) if len(set(p)) >= 3][::5][:6]
    for pop in sel5:
        for cov_mode in ("none", "monotone") if tier == "thorough" else ("none",):
            for alpha in (0.5, 0.6):
                out.append({"kind": "coverage", "pop": list(pop), "cov": cov_mode, "alpha": alpha, "n": 5})
    # n = 6 is exactly the minimum for the default level 0.7 (one training unit, five calibration units): 5040 orderings per
    # population, split into 16 chunks that are summed up in post()
    pops6 = [p for p in itertools.combinations_with_replacement(range(len(VALUES)), 7) if len(set(p)) == 4]
    pops6 = pops6[::3][:8] if tier == "thorough" else pops6[::7][:2]
    for pop in pops6:
        for k in range(16):
            out.append({"kind": "coverage", "pop": list(pop), "cov": "none", "alpha": 0.7, "n": 6, "chunk": [k, 16]})
    # all values distinct: no ties to inflate coverage, the conformal bound is then tight
    for k in range(16):
        out.append({"kind": "coverage", "pop": "distinct7", "cov": "none", "alpha": 0.7, "n": 6, "chunk": [k, 16]})
    # (c) real fits with a covariate: every reporting unit has an outstanding twin (same baseline, same covariates); the
    # calibration units' true values must lie inside the interval *reported* for their twins with weighted share > quantile
    for n, alpha_list in ((12, (0.5, 0.7)), (20, (0.7, 0.9))):
        for alpha in alpha_list:
            for xmode in ("spread", "mixed"):
                for robust in (False, True):
                    out.append({"kind": "twins", "n": n, "alpha": alpha, "xmode": xmode, "robust": robust, "rotations": list(range(n))})
    # (d) the calibration units are held out of the bound regressions: with a fixed effect whose only reporting unit wanders
    # through every position (so that it is a calibration unit in some runs and its dummy column is all zero on the training
    # rows), changing the calibration units' results alone must leave the unadjusted bounds of the outstanding units where
    # they were
    for n, alpha in ((12, 0.7), (20, 0.7), (20, 0.9)):
        out.append({"kind": "heldout", "n": n, "alpha": alpha, "singletons": list(range(n))})
    return out


def describe(case):
    if case["kind"] == "calib":
        return {"kind": "calib", "n_sets": len(case["sets"]), "first_set_(score_index,weight)": case["sets"][0]}
    if case["kind"] == "heldout":
        return dict(case, singletons=f"the single-unit class at each of the {len(case['singletons'])} reporting positions")
    if case["kind"] == "twins":
        return dict(case, rotations=f"all {len(case['rotations'])} rotations of the residual list against the covariates")
    return dict(case, pop=DISTINCT7 if case["pop"] == "distinct7" else [VALUES[i] for i in case["pop"]])


def _calib(case, cov, viol):
    import numpy as np
    import pandas as pd

    from elexmodel.models.ConformalElectionModel import PredictionIntervals
    from elexmodel.models.NonparametricElectionModel import NonparametricElectionModel

    runs = 0
    nontrivial = False
    nonrep = pd.DataFrame({"geographic_unit_fips": ["x1", "x2"], "last_election_results_turnout": [BIGW, BIGW], "results_turnout": [0, 0]})
    unadj_lower = np.array([-0.1, 0.05])
    unadj_upper = np.array([0.15, 0.4])
    for cs in case["sets"]:
        n = len(cs)
        scores = [SCORES[s] for s, _ in cs]
        weights = [w for _, w in cs]
        # rows handed over in descending score order: the method must do its own sorting
        order = sorted(range(n), key=lambda i: (-scores[i], weights[i]))
        conf = pd.DataFrame(
            {
                # unit ids whose alphabetical order is neither the row order nor the score order
                "geographic_unit_fips": [f"u{(7 * k + 3) % 11:02d}" for k in range(n)],
                "last_election_results_turnout": [weights[i] for i in order],
                # score = max(lower_bounds, upper_bounds): alternate which side carries it
                "lower_bounds": [scores[i] if k % 2 == 0 else scores[i] - 0.05 for k, i in enumerate(order)],
                "upper_bounds": [scores[i] - 0.07 if k % 2 == 0 else scores[i] for k, i in enumerate(order)],
            }
        )
        for alpha in ALPHAS:
            q = Fraction(str(alpha)) * (1 + Fraction(1, n))
            if q >= 1:
                # a share cannot exceed 1: the level is not attainable with this many calibration units (and cannot
                # occur at or above the minimum number of reporting units, see C14)
                cov["unattainable_levels_skipped"] += 1
                continue
            for robust in (False, True):
                # settings that have nothing to do with calibration (the request to save the calibration data) rotate
                save = (ALPHAS.index(alpha) + n) % 3 == 0
                model = NonparametricElectionModel(dict({"robust": robust}, **({"save_conformalization": True} if save else {})))
                if save:
                    cov["runs_with_save_conformalization"] += 1
                model.get_unit_prediction_interval_bounds = lambda *a, **k: PredictionIntervals(unadj_lower.copy(), unadj_upper.copy(), conf.copy())
                # the outstanding units arrive either with fresh 0..m-1 row labels or as a slice of a larger frame (row labels
                # that are not positions): the bounds belong to rows, not to labels
                nonrep_in = nonrep
                if (ALPHAS.index(alpha) + n + int(robust)) % 2:
                    nonrep_in = nonrep.set_axis([7, 3], axis=0)
                    cov["outstanding_frames_with_non_positional_labels"] += 1
                try:
                    pi = model.get_unit_prediction_intervals(pd.DataFrame({"x": range(n + 3)}), nonrep_in, alpha, "turnout")
                except Exception as e:
                    if q == 1:
                        cov["quantile_exactly_one_raised"] += 1
                        continue
                    viol("calibration-raised", f"scores={scores} weights={weights} alpha={alpha} robust={robust}: {type(e).__name__}: {e}")
                    continue
                runs += 1
                lo = np.asarray(pi.lower, dtype=float)
                hi = np.asarray(pi.upper, dtype=float)
                ctx = f"scores={scores} weights={weights} alpha={alpha} robust={robust}"
                if not (np.isfinite(lo).all() and np.isfinite(hi).all()):
                    if q == 1:
                        cov["quantile_exactly_one_nan"] += 1
                        continue
                    viol("calibration-nan", f"{ctx}: non-finite bounds {lo} {hi}")
                    continue
                c_lo = unadj_lower - (lo - BIGW) / BIGW
                c_hi = (hi - BIGW) / BIGW - unadj_upper
                cs_all = list(c_lo) + list(c_hi)
                if max(cs_all) - min(cs_all) > 3e-6:
                    viol("correction-not-symmetric", f"{ctx}: corrections read back from the four bounds differ: {cs_all}")
                    continue
                c = sum(cs_all) / 4
                snapped = min(SCORES, key=lambda s: abs(s - c))
                if abs(snapped - c) < 2e-6:
                    c_eff = Fraction(str(snapped))
                    covered = sum(w for s, w in zip(scores, weights) if Fraction(str(s)) <= c_eff)
                else:
                    covered = sum(w for s, w in zip(scores, weights) if s <= c + 2e-6)
                share = Fraction(covered, sum(weights))
                # 'exceeds' is strict.  A tolerance is granted only where floats cannot represent the comparison exactly
                # (the float quantile level or the float cumulative share differs from its exact value)
                q_float = alpha * (1 + 1 / n)
                tot = float(sum(weights))
                cum = 0.0
                for s_, w_ in sorted(zip(scores, weights)):
                    if (Fraction(str(s_)) <= c_eff) if abs(snapped - c) < 2e-6 else (s_ <= c + 2e-6):
                        cum += w_ / tot
                exact = Fraction(q_float) == q and Fraction(cum) == share
                ok_share = share > q if exact else share > q - Fraction(1, 10**9)
                if not ok_share:
                    viol("undercalibrated", f"{ctx}: correction {c:.6f} covers weighted share {float(share):.4f} of the calibration units, needs > {float(q):.4f}")
                if share == q:
                    cov["share_exactly_at_quantile"] += 1
                if exact and any(Fraction(sum(w2 for s2, w2 in zip(scores, weights) if s2 <= s3), sum(weights)) == q for s3 in scores):
                    cov["exact_knife_edge_sets"] += 1
                if robust:
                    uq = float(np.quantile(np.array(scores), q=float(q)))
                    if c < uq - 2e-6:
                        viol("robust-below-unweighted", f"{ctx}: correction {c:.6f} < unweighted quantile {uq:.6f}")
                    wq = min(s for s in sorted(scores) if Fraction(sum(w for s2, w in zip(scores, weights) if s2 <= s), sum(weights)) > q) if share > q else None
                    if wq is not None and abs(uq - wq) > 1e-9:
                        cov["weighted_differs_from_unweighted"] += 1
                        nontrivial = True
                if len(set(scores)) < n:
                    cov["tied_scores"] += 1
                    nontrivial = True
                if c < 0:
                    cov["negative_correction"] += 1
                cov["calibration_checks"] += 1
    return runs, nontrivial


def _coverage(case, cov, viol):
    import warnings

    import numpy as np
    import pandas as pd

    from elexmodel.models.NonparametricElectionModel import NonparametricElectionModel

    n = case["n"]
    alpha = case["alpha"]
    pop = DISTINCT7 if case["pop"] == "distinct7" else [VALUES[i] for i in case["pop"]]
    w = 1000
    feats = [] if case["cov"] == "none" else ["x1"]
    covered = 0
    total = 0
    outcomes = Counter()
    chunk = case.get("chunk")
    for pidx, perm in enumerate(itertools.permutations(range(n + 1))):
        if chunk and pidx % chunk[1] != chunk[0]:
            continue
        vals = [pop[i] for i in perm]
        rep_vals, out_val = vals[:n], vals[n]
        rep = pd.DataFrame(
            {
                "postal_code": "AA",
                "geographic_unit_fips": [f"r{i}" for i in range(n)],
                "last_election_results_turnout": float(w),
                "results_turnout": [w * (1 + v) for v in rep_vals],
                "residuals_turnout": rep_vals,
                "reporting": 1,
                "unit_category": "expected",
                "x1": [math.atan(v) for v in rep_vals],
            }
        )
        nonrep = pd.DataFrame(
            {
                "postal_code": "AA",
                "geographic_unit_fips": ["o0"],
                "last_election_results_turnout": float(w),
                "results_turnout": [0.0],
                "reporting": 0,
                "unit_category": "expected",
                "x1": [math.atan(out_val)],
            }
        )
        model = NonparametricElectionModel({"features": feats})
        with warnings.catch_warnings():
            warnings.simplefilter("ignore")
            model.get_unit_predictions(rep, nonrep, "turnout")
            pi = model.get_unit_prediction_intervals(rep, nonrep, alpha, "turnout")
        lo, hi = float(np.asarray(pi.lower)[0]), float(np.asarray(pi.upper)[0])
        truth = w * (1 + out_val)
        total += 1
        if lo <= truth <= hi:
            covered += 1
        outcomes[(lo, hi)] += 1
    cov["orderings"] += total
    need = Fraction(str(alpha)) * total
    if chunk:
        return total, len(set(pop)) > 1, (covered, total)
    if covered < need:
        viol(
            "coverage-below-alpha",
            f"population={pop} covariate={case['cov']} alpha={alpha} n={n}: outstanding unit covered in {covered} of {total} orderings ({covered / total:.4f}) < alpha",
        )
    cov["populations"] += 1
    cov["min_coverage_margin_permille"] = 0
    return total, len(set(pop)) > 1, covered / total


RESID = [-0.42, -0.3, -0.22, -0.15, -0.1, -0.06, -0.02, 0.0, 0.03, 0.07, 0.1, 0.14, 0.2, 0.26, 0.31, 0.4, 0.5, 0.62, 0.7, 0.85]


def _heldout(case, cov, viol):
    import warnings

    import numpy as np
    import pandas as pd

    from elexmodel.models.NonparametricElectionModel import NonparametricElectionModel

    n, alpha = case["n"], case["alpha"]
    runs = 0
    for k in case["singletons"]:
        res = [RESID[(i * 7 + k) % len(RESID)] for i in range(n)]
        xs = [((i * 11 + k) % n) / n * 3 for i in range(n)]
        ws = [float(BIGW * (1 + (i * 3 + k) % 4)) for i in range(n)]
        cls = ["s" if i == k else ("r" if i % 2 else "u") for i in range(n)]

        def frames(shift):
            rep = pd.DataFrame({"postal_code": "AA", "geographic_unit_fips": [f"r{i:02d}" for i in range(n)], "last_election_results_turnout": ws,
                                "results_turnout": [w * (1 + r + s) for w, r, s in zip(ws, res, shift)], "residuals_turnout": [r + s for r, s in zip(res, shift)],
                                "reporting": 1, "unit_category": "expected", "x1": xs, "county_classification": cls})
            non = pd.DataFrame({"postal_code": "AA", "geographic_unit_fips": ["o0", "o1", "o2"], "last_election_results_turnout": [float(BIGW)] * 3, "results_turnout": 0.0,
                                "reporting": 0, "unit_category": "expected", "x1": [0.4, 1.5, 2.6], "county_classification": ["r", "u", "s"]})
            return rep, non

        def bounds(shift):
            rep, non = frames(shift)
            model = NonparametricElectionModel({"features": ["x1"], "fixed_effects": {"county_classification": ["all"]}})
            with warnings.catch_warnings():
                warnings.simplefilter("ignore")
                model.get_unit_predictions(rep, non, "turnout")
                pi = model.get_unit_prediction_interval_bounds(rep, non, model._compute_conf_frac(n, alpha), alpha, "turnout")
            return np.asarray(pi.lower, dtype=float), np.asarray(pi.upper, dtype=float), list(pi.conformalization.geographic_unit_fips)

        try:
            lo0, up0, cal = bounds([0.0] * n)
            shift = [0.4 if f"r{i:02d}" in cal else 0.0 for i in range(n)]
            lo1, up1, cal1 = bounds(shift)
        except Exception as e:
            viol("heldout-raised", f"n={n} alpha={alpha} singleton at position {k}: {type(e).__name__}: {e}")
            continue
        runs += 2
        if cal1 != cal:
            viol("calibration-set-depends-on-results", f"n={n} alpha={alpha} singleton at position {k}: calibration units {cal} became {cal1} when only their results changed")
        elif not (np.allclose(lo0, lo1, atol=1e-9) and np.allclose(up0, up1, atol=1e-9)):
            viol("calibration-units-not-held-out", f"n={n} alpha={alpha}, class 's' carried by reporting unit r{k:02d} only ({'a calibration unit' if f'r{k:02d}' in cal else 'a training unit'}): raising the results of the {len(cal)} calibration units alone moved the unadjusted bounds of the outstanding units from {lo0.round(4).tolist()} / {up0.round(4).tolist()} to {lo1.round(4).tolist()} / {up1.round(4).tolist()}")
        if f"r{k:02d}" in cal:
            cov["heldout_runs_singleton_in_calibration"] += 1
        cov["heldout_pairs"] += 1
    return runs, True


def _twins(case, cov, viol):
    import warnings

    import numpy as np
    import pandas as pd

    from elexmodel.models.NonparametricElectionModel import NonparametricElectionModel

    n, alpha = case["n"], case["alpha"]
    runs = 0
    nontrivial = False
    for k in case["rotations"]:
        res = [RESID[(i * 7 + k) % len(RESID)] for i in range(n)]
        if case["xmode"] == "spread":
            xs = [abs(r) * 3 + 0.1 * ((i * 5) % 7) for i, r in enumerate(res)]  # spread of the residuals grows with x: quantile lines fan out / cross
        else:
            xs = [((i * 11 + k) % n) / n * 3 for i in range(n)]
        ws = [BIGW * (1 + (i * 3 + k) % 4) for i in range(n)]
        rep = pd.DataFrame({"postal_code": "AA", "geographic_unit_fips": [f"r{i:02d}" for i in range(n)], "last_election_results_turnout": [float(w) for w in ws],
                            "results_turnout": [w * (1 + r) for w, r in zip(ws, res)], "residuals_turnout": res, "reporting": 1, "unit_category": "expected", "x1": xs})
        twin = pd.DataFrame({"postal_code": "AA", "geographic_unit_fips": [f"t{i:02d}" for i in range(n)], "last_election_results_turnout": [float(w) for w in ws],
                             "results_turnout": 0.0, "reporting": 0, "unit_category": "expected", "x1": xs})
        model = NonparametricElectionModel({"features": ["x1"], "robust": case["robust"]})
        with warnings.catch_warnings():
            warnings.simplefilter("ignore")
            try:
                model.get_unit_predictions(rep, twin, "turnout")
                pi = model.get_unit_prediction_intervals(rep, twin, alpha, "turnout")
            except Exception as e:
                viol("twins-raised", f"n={n} alpha={alpha} {case['xmode']} robust={case['robust']} rotation={k}: {type(e).__name__}: {e}")
                continue
        runs += 1
        lo = np.asarray(pi.lower, dtype=float)
        hi = np.asarray(pi.upper, dtype=float)
        conf = pi.conformalization
        cal = [int(u[1:]) for u in conf.geographic_unit_fips]
        q = Fraction(str(alpha)) * (1 + Fraction(1, len(cal)))
        if q >= 1:
            continue
        inside_w = 0
        for i in cal:
            truth = ws[i] * (1 + res[i])
            if lo[i] - 1.0 <= truth <= hi[i] + 1.0:
                inside_w += ws[i]
        share = Fraction(int(inside_w), int(sum(ws[i] for i in cal)))
        if not share > q - Fraction(1, 10**9):
            viol("reported-interval-not-calibrated", f"n={n} alpha={alpha} {case['xmode']} robust={case['robust']} rotation={k}: the true counts of the calibration units lie inside the intervals reported for "
                 f"their twins (same baseline and covariates) with weighted share {float(share):.4f}, needs > {float(q):.4f} ({len(cal)} calibration units)")
        crossed = int(((conf.lower_bounds + conf.upper_bounds) > 1e-12).sum())
        if crossed:
            cov["runs_with_crossing_quantile_lines"] += 1
            nontrivial = True
        cov["twin_runs"] += 1
    return runs, nontrivial


def evaluate(case):
    cov = Counter()
    V = []

    def viol(kind, msg):
        if not any(v["sig"] == f"C04:{kind}" for v in V):
            V.append({"sig": f"C04:{kind}", "msg": msg})

    if case["kind"] in ("heldout", "twins"):
        runs, nontrivial = (_heldout if case["kind"] == "heldout" else _twins)(case, cov, viol)
        return {"violations": V, "cov": dict(cov), "outcome": sha([v["sig"] for v in V] + [runs]), "nontrivial": nontrivial, "transitions": max(1, runs)}
    if case["kind"] == "calib":
        runs, nontrivial = _calib(case, cov, viol)
        outcome = sha([v["sig"] for v in V] + [runs])
    else:
        runs, nontrivial, frac = _coverage(case, cov, viol)
        cov.pop("min_coverage_margin_permille", None)
        if isinstance(frac, tuple):
            return {"violations": V, "cov": dict(cov), "outcome": f"{frac[0]}/{frac[1]}", "nontrivial": nontrivial, "transitions": max(1, runs), "data": {"chunk": list(frac)}}
        outcome = f"{frac:.4f}"
    return {"violations": V, "cov": dict(cov), "outcome": outcome, "nontrivial": nontrivial, "transitions": max(1, runs), "data": {"coverage": outcome} if case["kind"] == "coverage" else None}


def post(cases, results, tier, seed):
    worst = {}
    chunks = {}
    viols = []
    for i, (c, r) in enumerate(zip(cases, results)):
        if c["kind"] != "coverage" or not r.get("data"):
            continue
        if "chunk" in r["data"]:
            key = (c["pop"] if isinstance(c["pop"], str) else tuple(c["pop"]), c["cov"], c["alpha"], c["n"])
            acc = chunks.setdefault(key, [0, 0, i])
            acc[0] += r["data"]["chunk"][0]
            acc[1] += r["data"]["chunk"][1]
        else:
            f = float(r["data"]["coverage"])
            worst[c["alpha"]] = min(worst.get(c["alpha"], 1.0), f)
    for (pop, covm, alpha, n), (covered, total, i) in chunks.items():
        f = covered / total
        worst[alpha] = min(worst.get(alpha, 1.0), f)
        if covered < Fraction(str(alpha)) * total:
            viols.append((i, {"sig": "C04:coverage-below-alpha", "from_post": True, "msg": f"population={DISTINCT7 if pop == 'distinct7' else [VALUES[j] for j in pop]} covariate={covm} alpha={alpha} n={n} (exactly the minimum): outstanding unit covered in {covered} of {total} orderings ({f:.4f}) < alpha"}))
    return {"violations": viols, "cov": {f"min_coverage_permille_alpha_{a}": int(round(1000 * f)) for a, f in worst.items()}}


REQUIRED_COUNTERS = {"calibration_checks": 10000, "orderings": 10000, "tied_scores": 1000, "weighted_differs_from_unweighted": 200, "negative_correction": 500, "exact_knife_edge_sets": 50, "twin_runs": 200, "runs_with_crossing_quantile_lines": 10, "heldout_pairs": 40, "heldout_runs_singleton_in_calibration": 5}
