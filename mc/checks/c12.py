"""C12 - estimates are a deterministic function of the arguments (E-HIST + process matrix)."""
import copy
import json
import os
import subprocess
import sys
from collections import Counter, deque

from .. import election as E
from ..env import VERIF
from ..runner import sha

PROPERTY = "C12"
LEVEL = "model_checking"
ENGINE = "E-HIST"
TECHNIQUE = "explicit-state breadth-first search over call histories on real client objects (states rebuilt by replay from a reset process state, deduplicated by a fingerprint of client, model registers, shared argument objects and process globals; differential invariant on every transition) plus an exhaustive interpreter matrix over hash seeds"
RULE = (
    "(a) operations run(A) nonparametric / run(B) gaussian / run(C) bootstrap with cross-validated lambda / run(D) nonparametric with the outlier models enabled / run(F) the request of D without outlier models on another baseline file, summary(), fresh-client, perturb-globals "
    "(advance numpy's and random's global generators, reorder warnings.filters, touch DEFAULT_AGGREGATES), with argument objects (baseline frame, feed "
    "frame, config dict, parameter dict, lists) shared between calls or copied: every history up to depth D (8+64+512 at D=3) explored breadth-first "
    "per first operation; invariant: every run(X)/summary() returns tables bit-identical to the reference for X. (a') for run(E), run(G) (bootstrap with an imposed contest correlation), run(H) / run(I) (bootstrap / nonparametric with the parameter argument omitted), which are not BFS operations: the histories [X], [perturb,X], [X,X], [X,perturb,X], [X,fresh,perturb,X], [Y,X] for every other run Y and [Y,fresh,X] for the non-BFS ones. (b) the references (plus run(E): gaussian on a single configured state, whose state has its own calibration model) are reproduced in "
    "fresh interpreters with PYTHONHASHSEED in {0,1,2,12345}, twice each, including the historical client, and must all agree. (c) changing the seed "
    "setting changes some cell for every estimator. non-trivial = the history contains at least two operations"
)
ASSUMPTIONS = ["process state is reset before each replay (numpy/random global state, warnings.filters, DEFAULT_AGGREGATES, the mutable default-argument objects of the public entry points); truly fresh interpreters are covered by (b)"]
OPS = ["run:A", "run:B", "run:C", "run:D", "run:F", "summary", "fresh", "perturb"]
# E is not a BFS operation (it would only widen the search); it is part of the interpreter matrix and the seed variation
SELFCHECK_INDEX = 0

ARGSETS = {
    "A": dict(pi_method="nonparametric", estimands=["turnout", "dem"], alphas=[0.7], aggregates=["postal_code", "county_fips", "unit"], features=[E.FEATURE], model_parameters={}),
    "B": dict(pi_method="gaussian", estimands=["turnout"], alphas=[0.7, 0.9], aggregates=["postal_code", "county_classification", "unit"], features=[], fixed_effects={"county_classification": ["all"]}, model_parameters={}),
    "C": dict(pi_method="bootstrap", estimands=["margin"], alphas=[0.9], aggregates=["postal_code", "unit"], features=["baseline_normalized_margin"], model_parameters={"B": 20}),
    # E: gaussian on a single configured state, so that the state has its own calibration model (group-keyed computations)
    "E": dict(pi_method="gaussian", estimands=["turnout"], alphas=[0.9], aggregates=["postal_code", "county_fips", "unit"], features=[], model_parameters={}, states=["AA"], big=True),
    # D: the public defaults for the outlier models (both enabled)
    "D": dict(pi_method="nonparametric", estimands=["turnout"], alphas=[0.7], aggregates=["postal_code", "unit"], features=[], model_parameters={"fit_margin_outlier_model": True, "fit_turnout_outlier_model": True}),
    # F: the same contest, estimands and configuration as B / D, but another baseline file (a corrected one: every third
    # unit's baseline counts are a quarter lower) - equal in everything a cache key on the request could look at
    "F": dict(pi_method="nonparametric", estimands=["turnout"], alphas=[0.7], aggregates=["postal_code", "unit"], features=[], model_parameters={}, alt=True),
    # G: bootstrap with an imposed correlation between the two contests (documented, rarely used parameter: another sampling branch)
    "G": dict(pi_method="bootstrap", estimands=["margin"], alphas=[0.9], aggregates=["postal_code", "unit"], features=["baseline_normalized_margin"], model_parameters={"B": 20, "contest_correlations": [[["AA", "BB"], 0.5]]}),
    # H, I: the parameter argument is omitted altogether (bootstrap / nonparametric): the library's default object is shared
    # by every call in the process
    "H": dict(pi_method="bootstrap", estimands=["margin"], alphas=[0.9], aggregates=["postal_code", "unit"], features=["baseline_normalized_margin"], model_parameters={}, omit_params=True),
    "I": dict(pi_method="nonparametric", estimands=["turnout"], alphas=[0.7], aggregates=["postal_code", "unit"], features=[], model_parameters={}, omit_params=True),
    # J: gaussian with the seed setting 0 (the bootstrap model's own default, a falsy value)
    "J": dict(pi_method="gaussian", estimands=["turnout"], alphas=[0.7, 0.9], aggregates=["postal_code", "county_classification", "unit"], features=[], model_parameters={"seed": 0}),
    # L, M: the size ladder - precinct level elections of 1 300 and 6 100 units with heavy-tailed turnout changes and the
    # outlier models at their public defaults (size is an input dimension too: the library has thresholds on unit counts)
    "L": dict(pi_method="nonparametric", estimands=["turnout"], alphas=[0.7], aggregates=["postal_code", "unit"], features=[], model_parameters={"fit_margin_outlier_model": True, "fit_turnout_outlier_model": True}, large=1300),
    "M": dict(pi_method="nonparametric", estimands=["turnout"], alphas=[0.7], aggregates=["postal_code", "unit"], features=[], model_parameters={"fit_margin_outlier_model": True, "fit_turnout_outlier_model": True}, large=6100),
}
# argument sets that are not BFS operations get a fixed family of short histories instead (kind 'offbfs')
OFF_BFS = ["E", "G", "H", "I", "J", "L", "M"]


def bounds(tier):
    return {"depth": 3 if tier == "quick" else 4, "operations": OPS, "argument_sharing": ["shared", "copied"], "hash_seeds": [0, 1, 2, 12345], "repeats_per_seed": 2}


def cases(tier, seed):
    out = []
    depth = 3 if tier == "quick" else 4
    for shared in (True, False):
        for first in OPS:
            out.append({"kind": "bfs", "prefix": [first], "depth": 1, "shared": shared, "seed": seed})
            for second in OPS:
                out.append({"kind": "bfs", "prefix": [first, second], "depth": depth, "shared": shared, "seed": seed})
    for hs in (0, 1, 2, 12345):
        for rep in (0, 1):
            out.append({"kind": "proc", "hashseed": hs, "rep": rep, "seed": seed})
    for name in OFF_BFS:
        for shared in (True, False):
            out.append({"kind": "offbfs", "name": name, "shared": shared, "seed": seed})
    out.append({"kind": "seedvar", "seed": seed})
    return out


def describe(case):
    return case


def election(seed):
    units = E.background(seed, "G", 26, "AABB", partial=4)
    # turnout growth follows the baseline margin (so an outlier model that happens to see a baseline-margin column
    # explains it, one that does not sees a wide spread); one unit is off that line
    for i, u in enumerate(units):
        if u["pev"] >= 100:
            bnm = (u["b_dem"] - u["b_gop"]) / (u["b_dem"] + u["b_gop"])
            f = 1 + 0.6 * bnm + (0.3 if i == 5 else 0.0)
            two = u["r_dem"] + u["r_gop"]
            u["r_turnout"] = max(two, int(u["b_turnout"] * f))
    # state BB is a toss-up (margins of its reporting units within a percent of zero), so that its bootstrapped outcome is
    # sensitive to anything that disturbs the model's stored draws between two summary requests
    for i, u in enumerate(u for u in units if u["postal"] == "BB" and u["pev"] >= 100):
        two = u["r_dem"] + u["r_gop"]
        u["r_dem"] = two // 2 + (i % 3 - 1) * max(1, two // 150)
        u["r_gop"] = two - u["r_dem"]
        bt = u["b_dem"] + u["b_gop"]
        u["b_dem"] = bt // 2 + ((i + 1) % 3 - 1) * max(1, bt // 150)
        u["b_gop"] = bt - u["b_dem"]
    units.append(E.make_probe(seed, 0, "nonrep_partial", "pop0"))
    units.append(E.make_probe(seed, 1, "unexpected", "pop1"))
    # a reporting unit that sits between the eligibility rules under the two weightings: its two-party vote is 56% of its
    # baseline turnout, turnout grew by 13% (turnout factor 1.13 against turnout, 2.02 against a two-party baseline)
    units.append(E.make_unit("AAc0_w0", "AA", "AAc0", "r", None, (280, 280, 1000), (316, 316, 1130), 100.0, 0.4))
    return units


def make_args(seed):
    """One set of argument *objects* per X (reused as-is in 'shared' mode)."""
    units = election(seed)
    cfg0 = E.make_cfg()
    baseline, feed = E.frames(units, cfg0)
    raw = E.raw_config(cfg0)
    args = {"baseline": baseline, "feed": feed, "raw_config": raw, "seed": seed}
    # a larger single-state election (60 reporting units, 18 calibration units) for argument set E: with a handful of
    # calibration units a bootstrapped scale takes so few distinct values that it hides which random stream was used
    big = E.background(seed + 1, "G", 66, "AA2", partial=6)
    args["baseline_big"], args["feed_big"] = E.frames(big, cfg0)
    alt = baseline.copy(deep=True)
    for c in ("baseline_turnout", "baseline_dem", "baseline_gop"):
        alt[c] = [int(v * 0.75) if i % 3 == 0 else v for i, v in enumerate(alt[c])]
    args["baseline_alt"] = alt
    for name, a in ARGSETS.items():
        args[name] = copy.deepcopy(a)
    return args


_LARGE = {}


def large_election(seed, n):
    """n reporting precincts in two states whose turnout change has heavy tails (a dense set of units near any outlier
    threshold), plus 40 outstanding ones; built once per process, handed out as copies"""
    import random

    if (seed, n) not in _LARGE:
        units = E.background(seed + 7, "G", n + 40, "AABB", partial=40)
        rng = random.Random(seed * 7919 + n)
        for u in units:
            if u["pev"] >= 100:
                f = min(1.9, max(0.55, 1.0 + 0.06 * rng.gauss(0, 1) / max(0.25, rng.random())))
                u["r_turnout"] = max(u["r_dem"] + u["r_gop"], int(u["b_turnout"] * f))
        _LARGE[(seed, n)] = E.frames(units, E.make_cfg())
    b, f = _LARGE[(seed, n)]
    return b.copy(deep=True), f.copy(deep=True)


def call_run(client, args, name, shared):
    a = args[name]
    if a.get("large"):
        if ("baseline_large", a["large"]) not in args:  # built on first use in this history, then shared like the others
            args[("baseline_large", a["large"])], args[("feed_large", a["large"])] = large_election(args["seed"], a["large"])
        args = dict(args, baseline=args[("baseline_large", a["large"])], feed=args[("feed_large", a["large"])])
    if "states" in a:
        raw_for = E.raw_config(E.make_cfg(states=a["states"]))
        args = dict(args, raw_config=raw_for)
    if a.get("big"):
        args = dict(args, baseline=args["baseline_big"], feed=args["feed_big"])
    if a.get("alt"):
        args = dict(args, baseline=args["baseline_alt"])
    if shared:
        baseline, feed, raw, est, alphas, aggs, feats, mp, fe = args["baseline"], args["feed"], args["raw_config"], a["estimands"], a["alphas"], a["aggregates"], a["features"], a["model_parameters"], a.get("fixed_effects", {})
    else:
        baseline, feed, raw = args["baseline"].copy(deep=True), args["feed"].copy(deep=True), copy.deepcopy(args["raw_config"])
        est, alphas, aggs, feats, mp, fe = list(a["estimands"]), list(a["alphas"]), list(a["aggregates"]), list(a["features"]), copy.deepcopy(a["model_parameters"]), copy.deepcopy(a.get("fixed_effects", {}))
    if a.get("omit_params"):
        # the caller does not pass model_parameters at all: the library's own default argument is in force
        res = client.get_estimates(
            feed, E.ELECTION_ID, "G", est, prediction_intervals=alphas, percent_reporting_threshold=100, geographic_unit_type="precinct", raw_config=raw,
            preprocessed_data=baseline, features=feats, aggregates=aggs, fixed_effects=fe, pi_method=a["pi_method"], save_output=[],
        )
        return {k: E.table_to_obj(v) for k, v in res.items()}
    mp.setdefault("fit_margin_outlier_model", False)
    mp.setdefault("fit_turnout_outlier_model", False)
    res = client.get_estimates(
        feed, E.ELECTION_ID, "G", est, prediction_intervals=alphas, percent_reporting_threshold=100, geographic_unit_type="precinct", raw_config=raw,
        preprocessed_data=baseline, model_parameters=mp, features=feats, aggregates=aggs, fixed_effects=fe, pi_method=a["pi_method"], save_output=[],
    )
    return {k: E.table_to_obj(v) for k, v in res.items()}


def call_summary(client):
    tab = client.get_national_summary_votes_estimates({"AA": 3, "BB": 5}, 1, [0.7, 0.9])
    return {"nat_sum_data": E.table_to_obj(tab)}


_WORLD = None
_REFS = None


def _mutable_defaults():
    """the mutable default-argument objects of the public entry points: they live as long as the process"""
    from elexmodel.client import HistoricalModelClient, ModelClient

    out = []
    for fn in (ModelClient.get_estimates, HistoricalModelClient.get_historical_evaluation, ModelClient.get_national_summary_votes_estimates):
        for d in list(fn.__defaults__ or ()) + list((fn.__kwdefaults__ or {}).values()):
            if isinstance(d, (dict, list, set)):
                out.append(d)
    return out


def _snapshot_world():
    import random
    import warnings

    import numpy as np

    from elexmodel.utils import constants

    return {"np": np.random.get_state(), "py": random.getstate(), "filters": list(warnings.filters), "agg_keys": list(constants.DEFAULT_AGGREGATES.keys()),
            "defaults": [copy.deepcopy(d) for d in _mutable_defaults()]}


def _reset_world():
    import random
    import warnings

    import numpy as np

    from elexmodel.utils import constants

    np.random.set_state(_WORLD["np"])
    random.setstate(_WORLD["py"])
    warnings.filters[:] = _WORLD["filters"]
    for k in list(constants.DEFAULT_AGGREGATES.keys()):
        if k not in _WORLD["agg_keys"]:
            del constants.DEFAULT_AGGREGATES[k]
    for d, d0 in zip(_mutable_defaults(), _WORLD["defaults"]):
        d.clear()
        if isinstance(d, dict):
            d.update(copy.deepcopy(d0))
        elif isinstance(d, list):
            d.extend(copy.deepcopy(d0))
        else:
            d.update(copy.deepcopy(d0))


def _perturb():
    import random
    import warnings

    import numpy as np

    from elexmodel.utils import constants

    np.random.random(17)
    random.random()
    warnings.filters.reverse()
    _ = constants.DEFAULT_AGGREGATES["bogus_office"]


def worker_init():
    global _WORLD
    _WORLD = _snapshot_world()


def references(seed):
    global _REFS
    if _REFS is None or _REFS[0] != seed:
        from elexmodel.client import ModelClient

        refs = {}
        for name in ARGSETS:
            _reset_world()
            args = make_args(seed)
            c = ModelClient()
            refs[name] = call_run(c, args, name, shared=False)
            if name == "C":
                refs["summary"] = call_summary(c)
        _REFS = (seed, refs)
    return _REFS[1]


def _fingerprint(client, args, last_model_name):
    import random

    import numpy as np
    import pandas as pd

    from elexmodel.utils import constants

    def h(df):
        return sha([list(map(str, df.columns)), pd.util.hash_pandas_object(df, index=False).sum().item() if len(df) else 0])

    m = client.model
    regs = []
    for name in ("divided_error_B_1", "aggregate_pred_margin", "called_contests"):
        v = getattr(m, name, None) if m is not None else None
        regs.append(None if v is None else sha(np.asarray(v, dtype=float).round(12).tolist()))
    return sha(
        [
            last_model_name,
            sorted(vars(client).keys()),
            type(m).__name__,
            regs,
            sorted(client.all_conformalization_data_unit_dict.keys()),
            h(args["baseline"]),
            h(args["baseline_alt"]),
            h(args["feed"]),
            json.dumps(args["raw_config"], sort_keys=True),
            json.dumps({k: args[k]["model_parameters"] for k in ARGSETS}, sort_keys=True),
            sha(np.random.get_state()[1][:8].tolist() + [np.random.get_state()[2]]),
            sha(str(random.getstate()[1][:4])),
            sorted(constants.DEFAULT_AGGREGATES.keys()),
            json.dumps([sorted(map(str, d.items())) if isinstance(d, dict) else sorted(map(str, d)) for d in _mutable_defaults()]),
            sha([str(f[:3]) for f in __import__("warnings").filters]),
        ]
    )


def _diff(ref, got):
    for t in ref:
        if t not in got:
            return f"table {t} missing"
        if ref[t]["columns"] != got[t]["columns"]:
            return f"{t}: columns {got[t]['columns']} vs reference {ref[t]['columns']}"
        for ra, rb in zip(ref[t]["rows"], got[t]["rows"]):
            if ra != rb:
                cols = ref[t]["columns"]
                d = {c: (a, b) for c, a, b in zip(cols, ra, rb) if a != b}
                return f"{t} row {ra[:2]}: (reference, got) {d}"
        if len(ref[t]["rows"]) != len(got[t]["rows"]):
            return f"{t}: {len(got[t]['rows'])} rows vs {len(ref[t]['rows'])}"
    extra = set(got) - set(ref)
    return f"extra tables {sorted(extra)}" if extra else None


def _replay(hist, shared, seed, refs, viol, cov, check_from=0):
    """Replay a history from the reset world; check every run/summary from position check_from on. Returns fingerprint."""
    from elexmodel.client import ModelClient

    _reset_world()
    args = make_args(seed)
    client = ModelClient()
    last = None
    ran = set()  # requests this client object has answered (anything it may have kept from them is part of the state)
    transitions = 0
    for i, op in enumerate(hist):
        transitions += 1
        try:
            if op.startswith("run:"):
                name = op[4:]
                got = call_run(client, args, name, shared)
                last = name
                ran.add(name)
                if i >= check_from:
                    d = _diff(refs[name], got)
                    cov["runs_compared"] += 1
                    if d:
                        viol(f"run-depends-on-history:{ARGSETS[name]['pi_method']}:{'shared' if shared else 'copied'}-arguments", f"history {hist[: i + 1]} (arguments {'shared' if shared else 'copied'}): run({name}) differs from its reference: {d}")
            elif op == "summary":
                if last == "C" and type(client.model).__name__ == "BootstrapElectionModel":
                    got = call_summary(client)
                    if i >= check_from:
                        d = _diff(refs["summary"], got)
                        cov["summaries_compared"] += 1
                        if d:
                            viol(f"summary-depends-on-history:{'shared' if shared else 'copied'}-arguments", f"history {hist[: i + 1]}: summary differs from its reference: {d}")
                else:
                    cov["summary_not_applicable"] += 1
            elif op == "fresh":
                client = ModelClient()
                last = None
                ran = set()
            elif op == "perturb":
                _perturb()
        except Exception as e:
            viol(f"history-raised:{type(e).__name__}", f"history {hist[: i + 1]} (arguments {'shared' if shared else 'copied'}): {type(e).__name__}: {str(e)[:300]}")
            return None, transitions
    return _fingerprint(client, args, [last, sorted(ran)]), transitions


def _bfs_case(case, cov, viol):
    refs = references(case["seed"])
    seen = {}
    frontier = deque([list(case["prefix"])])
    transitions = 0
    while frontier:
        hist = frontier.popleft()
        fp, t = _replay(hist, case["shared"], case["seed"], refs, viol, cov, check_from=0 if len(hist) == len(case["prefix"]) else len(hist) - 1)
        transitions += t
        if fp is None:
            continue
        if fp in seen:
            cov["states_merged"] += 1
            continue
        seen[fp] = hist
        if len(hist) < case["depth"]:
            for op in OPS:
                frontier.append(hist + [op])
    cov["bfs_states"] += len(seen)
    return transitions, len(seen)


CHILD = r"""
import json, sys
sys.path.insert(0, %(verif)r)
from mc import env
env.apply_env({"PYTHONHASHSEED": %(hs)r})
env.import_elexmodel()
from mc import fakes
fakes.install_fake_boto3()
from mc.checks import c12
from mc.runner import sha
from elexmodel.client import ModelClient
out = {}
seed = %(seed)d
for name in c12.ARGSETS:
    args = c12.make_args(seed)
    c = ModelClient()
    t = c12.call_run(c, args, name, shared=False)
    out[name] = {k: sha(v) for k, v in t.items()}
    if name == "C":
        out["summary"] = {k: sha(v) for k, v in c12.call_summary(c).items()}
out["historical"] = c12.historical(seed)
print("C12CHILD " + json.dumps(out, sort_keys=True))
"""


def historical(seed):
    """HistoricalModelClient run in a scratch cwd (its aggregate order comes from a set)."""
    import shutil
    import tempfile

    from elexmodel.client import HistoricalModelClient

    from . import c10

    units = election(seed)
    cfg = E.make_cfg(estimands=["turnout"], pi_method="nonparametric", alphas=[0.7])
    rc = E.raw_config(cfg)
    rc[E.ELECTION_ID][0]["historical_election"] = [c10.HIST_ID]
    hist_cfg = {c10.HIST_ID: [dict(rc[E.ELECTION_ID][0], historical_election=[])]}
    baseline, feed = E.frames(units, cfg)
    df = baseline.copy()
    df["results_turnout"] = (df.baseline_turnout * 1.1).astype(int)
    df["results_dem"] = (df.baseline_dem * 1.2).astype(int)
    df["results_gop"] = (df.baseline_gop * 0.9).astype(int)
    scratch = tempfile.mkdtemp(prefix="mc_c12_")
    cwd0 = os.getcwd()
    try:
        os.chdir(scratch)
        os.makedirs("config")
        os.makedirs(f"data/{c10.HIST_ID}/G")
        json.dump(rc, open(f"config/{E.ELECTION_ID}.json", "w"))
        json.dump(hist_cfg, open(f"config/{c10.HIST_ID}.json", "w"))
        df.to_csv(f"data/{c10.HIST_ID}/G/data_precinct.csv", index=False)
        out = HistoricalModelClient().get_historical_evaluation(
            feed[feed.geographic_unit_fips.isin(baseline.geographic_unit_fips)], E.ELECTION_ID, "G", ["turnout"], [0.7], 100, "precinct",
            aggregates=["postal_code", "county_fips", "county_classification"], pi_method="nonparametric", save_output=[], features=[E.FEATURE],
            model_parameters={"fit_margin_outlier_model": False, "fit_turnout_outlier_model": False},
        )
        est = out[c10.HIST_ID]["estimates"]
        return {k: sha(E.table_to_obj(v)) for k, v in est.items()}
    finally:
        os.chdir(cwd0)
        shutil.rmtree(scratch, ignore_errors=True)


def _proc_case(case, cov, viol):
    code = CHILD % {"verif": VERIF, "hs": str(case["hashseed"]), "seed": case["seed"]}
    env = dict(os.environ)
    env["PYTHONHASHSEED"] = str(case["hashseed"])
    env.pop("MC_REEXEC", None)
    p = subprocess.run([sys.executable, "-c", code], capture_output=True, text=True, env=env, cwd=VERIF, timeout=600)
    line = [l for l in p.stdout.splitlines() if l.startswith("C12CHILD ")]
    if p.returncode != 0 or not line:
        raise RuntimeError(f"child failed: rc={p.returncode} {p.stderr[-800:]}")
    cov["fresh_interpreters"] += 1
    return json.loads(line[0][len("C12CHILD "):])


def _seedvar_case(case, cov, viol):
    from elexmodel.client import ModelClient

    refs = references(case["seed"])
    for name in ARGSETS:
        if ARGSETS[name].get("omit_params") or "seed" in ARGSETS[name]["model_parameters"]:
            continue  # no parameter argument / an argument set that is about one particular seed
        _reset_world()
        args = make_args(case["seed"])
        args[name]["model_parameters"]["seed"] = 977
        got = call_run(ModelClient(), args, name, shared=False)
        if _diff(refs[name], got) is None:
            viol(f"seed-setting-has-no-effect:{ARGSETS[name]['pi_method']}", f"run({name}) with seed=977 equals the run with the default seed: randomness is not derived from the seed setting")
        cov["seed_variations"] += 1
    return 3


def evaluate(case):
    cov = Counter()
    V = []

    def viol(kind, msg):
        if not any(v["sig"] == f"C12:{kind}" for v in V):
            V.append({"sig": f"C12:{kind}", "msg": str(msg)[:1200]})

    out = {"violations": V, "outcome": "", "nontrivial": True}
    if case["kind"] == "bfs":
        t, n = _bfs_case(case, cov, viol)
        out.update(transitions=t, n_states=n, outcome=sha([v["sig"] for v in V]))
    elif case["kind"] == "offbfs":
        refs = references(case["seed"])
        x = "run:" + case["name"]
        hists = [[x], ["perturb", x], [x, x], [x, "perturb", x], [x, "fresh", "perturb", x]] + [[y, x] for y in OPS if y.startswith("run:")] + [["run:" + o, x] for o in OFF_BFS if o != case["name"]] + [["run:" + o, "fresh", x] for o in OFF_BFS if o != case["name"]]
        t = 0
        for h in hists:
            _, tr = _replay(h, case["shared"], case["seed"], refs, viol, cov, check_from=0)
            t += tr
            cov["off_bfs_histories"] += 1
        out.update(transitions=t, outcome=sha([v["sig"] for v in V]))
    elif case["kind"] == "proc":
        data = _proc_case(case, cov, viol)
        out.update(transitions=5, data=data, outcome=sha(data))
    else:
        t = _seedvar_case(case, cov, viol)
        out.update(transitions=t, outcome=sha([v["sig"] for v in V]))
    out["cov"] = dict(cov)
    return out


def post(cases, results, tier, seed):
    viols = []
    procs = [(i, c, r.get("data")) for i, (c, r) in enumerate(zip(cases, results)) if c["kind"] == "proc" and r.get("data")]
    cov = Counter()
    if procs:
        i0, c0, d0 = procs[0]
        for i, c, d in procs[1:]:
            cov["interpreter_pairs_compared"] += 1
            for name in d0:
                if d.get(name) != d0[name]:
                    tabs = [t for t in d0[name] if d.get(name, {}).get(t) != d0[name][t]]
                    same_seed = c["hashseed"] == c0["hashseed"]
                    viols.append((i, {"sig": f"C12:differs-between-interpreters:{name}:{'same' if same_seed else 'different'}-hash-seed", "from_post": True,
                                      "msg": f"{name}: tables {tabs} differ between interpreter (PYTHONHASHSEED={c0['hashseed']}, rep {c0['rep']}) and (PYTHONHASHSEED={c['hashseed']}, rep {c['rep']})"}))
    return {"violations": viols, "cov": dict(cov)}


REQUIRED_COUNTERS = {"runs_compared": 100, "summaries_compared": 5, "bfs_states": 50, "fresh_interpreters": 8, "interpreter_pairs_compared": 7, "seed_variations": 3, "off_bfs_histories": 100}
