"""C09 - which units feed the model follows the documented eligibility rules exactly."""
import itertools
import math
from collections import Counter

from .. import election as E
from .. import refmodel as R
from ..runner import sha

PROPERTY = "C09"
LEVEL = "model_checking"
ENGINE = "E-SCEN"
RULE = (
    "one probe unit over the full product in-baseline x in-feed (with results / row without results yet) x percent in {0, thr-1 or thr-0.4, thr, thr+1 or thr+0.5, 100 or 99.6} x unit-blocklisted x state-blocklisted x "
    "own state {AA,BB} x baseline {0,>0} x turnout factor {0.3, =lower, 1.0, =upper, 3.0} x limits {0.5/2.0, 0.8/1.25} x policy {drop,zero} x "
    "threshold {50,100} x weight basis {turnout, two-party}, on a 6-unit background, executed at the real CombinedDataHandler.get_units; pairs of "
    "probes over a reduced alphabet; outlier models on/off with 19..23 reporting units; every (dem,gop,turnout,baseline) in {0,1,7}^k through the real "
    "Estimandizer; 30 runs through the public client with default and explicitly configured limits (including 0); 18 runs through the public client over both outlier-model switches in {omitted, off, on}^2. Oracle: rule table of the statement, first applicable reason wins. non-trivial = the probe is not a plain fitting unit"
)
ASSUMPTIONS = [
    "outlier models: checked that flagged ids (as returned by the real _fit_outlier_detection_model) are excluded with the outlier reason unless an earlier reason applies, that a disabled model is never consulted and an enabled one is consulted when more than 20 modelled units report",
]
SELFCHECK_INDEX = 17
# index 2 is exactly the threshold; 49.6 / 99.6 round up to it but are below it
PCT = {50: [0, 49.6, 50, 51, 100], 100: [0, 99, 100, 100.5, 99.6], 0: [0, 0.4, 0, 1, 100]}


def bounds(tier):
    return {"single_probe_product": "complete", "pairs": "reduced alphabet (32 probe kinds)" if tier == "quick" else "all unordered pairs of the 400 probe kinds", "outlier_n": [19, 20, 21, 22, 23], "estimandizer_domain": "{0,1,7}"}


def _probe_specs():
    out = []
    for in_base, in_feed in itertools.product([True, False], repeat=2):
        if not in_base and not in_feed:
            continue
        for ubl, sbl, state in itertools.product([False, True], [False, True], ["AA", "BB"]):
            for bzero in (False, True):
                tfs = ["0.3", "lower", "1.0", "upper", "3.0"] if (in_feed and in_base and not bzero) else ["1.0"]
                for tf in tfs:
                    for pi in range(5) if in_feed else [0]:
                        out.append(dict(in_base=in_base, in_feed=in_feed, ubl=ubl, sbl=sbl, state=state, bzero=bzero, tf=tf, pi=pi))
                        if in_feed and tf == "1.0" and pi in (0, 4):
                            # a feed row that has no results yet (NaN)
                            out.append(dict(in_base=in_base, in_feed=in_feed, ubl=ubl, sbl=sbl, state=state, bzero=bzero, tf=tf, pi=pi, nan=True))
    return out


def cases(tier, seed):
    out = []
    specs = _probe_specs()
    for lim in ("default", "custom"):
        for policy in ("drop", "zero"):
            for thr in (50, 100, 0):
                for basis in ("turnout", "twoparty"):
                    # batches of probes evaluated one by one inside the worker
                    for i in range(0, len(specs), 40):
                        out.append({"kind": "single", "specs": specs[i : i + 40], "lim": lim, "policy": policy, "thr": thr, "basis": basis, "seed": seed})
    red = [s for s in specs if s["pi"] in (0, 2) and s["tf"] in ("1.0", "upper") and s["state"] == "AA" and not s["sbl"]]
    pairs = list(itertools.combinations_with_replacement(range(len(red)), 2))
    for i in range(0, len(pairs), 60):
        out.append({"kind": "pairs", "specs": red, "pairs": pairs[i : i + 60], "lim": "default", "policy": "zero" if (i // 60) % 2 else "drop", "thr": 100, "basis": "turnout", "seed": seed})
    if tier == "thorough":
        # every unordered pair of the complete single-probe alphabet (400 probe kinds), configuration rotating with the batch
        pairs = list(itertools.combinations_with_replacement(range(len(specs)), 2))
        for b, i in enumerate(range(0, len(pairs), 200)):
            out.append({"kind": "pairs", "specs": specs, "pairs": pairs[i : i + 200], "lim": ["default", "custom"][b % 2], "policy": ["drop", "zero"][(b // 2) % 2], "thr": [100, 50][(b // 4) % 2], "basis": ["turnout", "twoparty"][(b // 8) % 2], "seed": seed})
    for n in (19, 20, 21, 22, 23, 30):
        for tmodel, mmodel, basis in itertools.product([False, True], [False, True], ["turnout", "twoparty"]):
            out.append({"kind": "outlier", "n": n, "turnout_model": tmodel, "margin_model": mmodel, "basis": basis, "seed": seed})
    out.append({"kind": "estimandizer"})
    # through the public client: explicitly configured limits (including 0, i.e. 'no lower limit') and the documented defaults
    for lower in (None, 0, 0.3):
        for upper in (None, 4.0):
            for status in ("tf_below", "tf_at_lower", "tf_at_upper", "tf_above", "zero_baseline"):
                out.append({"kind": "client", "lower": lower, "upper": upper, "status": status, "seed": seed})
    # the two outlier-model switches through the public client, in every combination (each switch must control its own model)
    for tmodel, mmodel in itertools.product([None, False, True], repeat=2):
        for basis in ("turnout", "twoparty"):
            out.append({"kind": "client_outlier", "turnout_model": tmodel, "margin_model": mmodel, "basis": basis, "seed": seed})
    return out


def describe(case):
    c = dict(case)
    if "specs" in c:
        c["specs"] = c["specs"][:2] + [f"... {len(case['specs'])} probe specs"]
    if "pairs" in c:
        c["pairs"] = f"{len(case['pairs'])} index pairs"
    return c


def _limits(lim):
    return (0.5, 2.0) if lim == "default" else (0.8, 1.25)


def _mk_probe(spec, slot, thr, lim, basis, seed):
    lo, hi = _limits(lim)
    county = "AAc0" if spec["state"] == "AA" else "BBc0"
    b_two = 400 + 40 * slot
    bd, bg = b_two // 2 + 20, b_two // 2 - 20
    other = 40
    f = {"0.3": 0.3, "lower": lo, "1.0": 1.0, "upper": hi, "3.0": 3.0}[spec["tf"]]
    if basis == "twoparty":
        # results two-party = f * baseline two-party exactly
        two = b_two * f
        assert abs(two - round(two)) < 1e-9
        two = int(round(two))
        rd = two // 2 + 3
        rg = two - rd
        rt = two + 11
    else:
        bt = b_two + other
        t = bt * f
        assert abs(t - round(t)) < 1e-9, (bt, f)
        rt = int(round(t))
        rd = rt // 2
        rg = rt - rd - min(5, rt - rd)
    b = (0, 0, 0) if spec["bzero"] else (bd, bg, b_two + other)
    u = E.make_unit(f"{county}_p{slot}", spec["state"], county, "r", None, b, (rd, rg, rt), PCT[thr][spec["pi"]], 0.5, spec["in_base"], spec["in_feed"], "probe")
    if spec["ubl"]:
        u["status"] = "unit_blocklisted"
    if spec.get("nan"):
        u["r_nan"] = True
    return u


def _get_units(units, cfg, tmodel=False, mmodel=False):
    from elexmodel.handlers.data.CombinedData import CombinedDataHandler
    from elexmodel.handlers.data.PreprocessedData import PreprocessedDataHandler

    baseline, feed = E.frames(units, cfg)
    est = cfg["estimands"]
    bl = {e: (e if e != "margin" else "margin") for e in est}
    pre = PreprocessedDataHandler(E.ELECTION_ID, "G", "precinct", est, bl, data=baseline)
    data = pre.select_rows_in_states(pre.data, cfg["states"])
    h = CombinedDataHandler(data, feed, est, "precinct", handle_unreporting=cfg["policy"])
    lo, hi = R.limits(cfg)
    ub, sb = R.blocklists(units, cfg)
    flagged = []
    orig = h._fit_outlier_detection_model

    def spy(reporting_units, response_variable, z):
        out = orig(reporting_units, response_variable, z)
        flagged.append((response_variable, sorted(out.geographic_unit_fips), int(reporting_units.shape[0])))
        return out

    h._fit_outlier_detection_model = spy
    rep, nonrep, other = h.get_units(cfg["threshold"], lo, hi, sorted(ub), sorted(sb), mmodel, tmodel, 2.0, ["postal_code", "county_fips"])
    return rep, nonrep, other, flagged


def _compare(units, cfg, rep, nonrep, other, viol, ctx, flagged_ids=None):
    cats = R.categorize(units, cfg)
    exp_fit = sorted(u for u, c in cats.items() if c["kind"] == "fit")
    exp_pred = sorted(u for u, c in cats.items() if c["kind"] == "predict")
    exp_other = {u: c["category"] for u, c in cats.items() if c["kind"] == "passthrough"}
    got_fit = sorted(rep.geographic_unit_fips)
    got_pred = sorted(nonrep.geographic_unit_fips)
    got_other = dict(zip(other.geographic_unit_fips, other.unit_category))
    if flagged_ids:
        for uid, reason in flagged_ids.items():
            if uid in exp_fit:
                exp_fit.remove(uid)
                exp_other[uid] = reason
    if got_fit != exp_fit:
        viol("fit-set", f"{ctx}: fitting units {sorted(set(got_fit) ^ set(exp_fit))} differ (got {len(got_fit)}, expected {len(exp_fit)})")
    if got_pred != exp_pred:
        viol("predict-set", f"{ctx}: predicted units differ: got-only {sorted(set(got_pred) - set(exp_pred))} expected-only {sorted(set(exp_pred) - set(got_pred))}")
    if len(other.geographic_unit_fips) != len(set(other.geographic_unit_fips)):
        viol("passthrough-duplicated", f"{ctx}: a passthrough unit appears twice")
    if got_other != exp_other:
        diff = {u: (got_other.get(u), exp_other.get(u)) for u in set(got_other) | set(exp_other) if got_other.get(u) != exp_other.get(u)}
        viol("passthrough-category", f"{ctx}: (got, expected) category per unit: {diff}")
    if set(rep.reporting) - {1} or set(nonrep.reporting) - {0} or set(other.reporting) - {0}:
        viol("reporting-flag", f"{ctx}: reporting flags wrong")
    return cats


def evaluate(case):
    cov = Counter()
    V = []
    outcomes = []

    def viol(kind, msg):
        if not any(v["sig"] == f"C09:{kind}" for v in V):
            V.append({"sig": f"C09:{kind}", "msg": msg})

    kind = case["kind"]
    runs = 0
    nontrivial = False
    if kind in ("single", "pairs"):
        lo, hi = _limits(case["lim"])
        est = ["margin"] if case["basis"] == "twoparty" else ["turnout"]
        groups = [[s] for s in case["specs"]] if kind == "single" else [[case["specs"][i], case["specs"][j]] for i, j in case["pairs"]]
        bg = E.background(case["seed"], "G", 6, "AA2")
        for specs in groups:
            probes = [_mk_probe(s, k, case["thr"], case["lim"], case["basis"], case["seed"]) for k, s in enumerate(specs)]
            sbl = ["BB"] if any(s["sbl"] for s in specs) else []
            cfg = E.make_cfg(estimands=est, threshold=case["thr"], policy=case["policy"], model_parameters={"turnout_factor_lower": lo, "turnout_factor_upper": hi, "postal_code_blocklist": sbl})
            units = bg + probes
            rep, nonrep, other, _ = _get_units(units, cfg)
            runs += 1
            ctx = f"specs={specs} lim={case['lim']} policy={case['policy']} thr={case['thr']} basis={case['basis']}"
            cats = _compare(units, cfg, rep, nonrep, other, viol, ctx)
            for p in probes:
                c = cats.get(p["id"])
                key = "absent" if c is None else c["category"] + ":" + c["kind"]
                cov["probe_" + key] += 1
                outcomes.append(key)
                if c is None or c["kind"] != "fit":
                    nontrivial = True
            for s in specs:
                if s["tf"] in ("lower", "upper") and s["in_base"] and s["in_feed"]:
                    cov["tf_exactly_at_limit"] += 1
                if s["pi"] == 2:
                    cov["percent_exactly_at_threshold"] += 1
                if s.get("nan"):
                    cov["feed_rows_without_results"] += 1
                if sum([s["ubl"] or (s["sbl"] and s["state"] == "BB"), s["bzero"], s["tf"] in ("0.3", "lower", "upper", "3.0")]) >= 2:
                    cov["precedence_cases"] += 1
    elif kind == "outlier":
        import random

        n = case["n"]
        est = ["margin"] if case["basis"] == "twoparty" else ["turnout"]
        units = E.background(case["seed"], "G", n, "AA2")
        rng = random.Random(case["seed"] * 31 + n)
        # two wild units so that the outlier model has something to flag
        # unit 0 is an outlier for both models (turnout factor 1.9, inside the hard limits, and a reversed margin), unit 1
        # for the margin model only: a unit flagged twice must still be passed through exactly once
        for i, u in enumerate(units[:2]):
            two = int((u["b_dem"] + u["b_gop"]) * (1.9 if i == 0 else 1.0))
            big, small = int(two * 0.95), two - int(two * 0.95)
            u["r_dem"], u["r_gop"] = (big, small) if u["b_dem"] < u["b_gop"] else (small, big)
            u["r_turnout"] = int(u["b_turnout"] * (1.9 if i == 0 else 1.0))
        units += [E.make_probe(case["seed"], 0, "nonrep_partial", "pop0"), E.make_probe(case["seed"], 1, "zero_baseline", "pop1"), E.make_probe(case["seed"], 2, "unit_blocklisted", "pop0")]
        cfg = E.make_cfg(estimands=est)
        rep, nonrep, other, flagged = _get_units(units, cfg, case["turnout_model"], case["margin_model"])
        runs += 1
        cats = R.categorize(units, cfg)
        n_modelled = sum(1 for c in cats.values() if c["kind"] == "fit")
        consulted = {f[0] for f in flagged}
        ctx = f"n={n} turnout_model={case['turnout_model']} margin_model={case['margin_model']} basis={case['basis']}"
        if not case["turnout_model"] and "turnout_factor" in consulted:
            viol("outlier-disabled-but-consulted", f"{ctx}: turnout outlier model consulted although disabled")
        if (not case["margin_model"] or "margin" not in est) and "results_normalized_margin" in consulted:
            viol("outlier-disabled-but-consulted", f"{ctx}: margin outlier model consulted although disabled / margin not requested")
        if case["turnout_model"] and n_modelled > 20 and "turnout_factor" not in consulted:
            viol("outlier-not-consulted", f"{ctx}: {n_modelled} modelled reporting units but the turnout outlier model was not consulted")
        if case["margin_model"] and "margin" in est and n_modelled > 20 and "results_normalized_margin" not in consulted:
            viol("outlier-not-consulted", f"{ctx}: {n_modelled} modelled reporting units but the margin outlier model was not consulted")
        if consulted and all(f[2] <= 20 for f in flagged):
            viol("outlier-consulted-too-few", f"{ctx}: outlier model consulted with {[f[2] for f in flagged]} reporting units")
        reason = {}
        for var, ids, _n in flagged:
            for uid in ids:
                reason.setdefault(uid, "non-modeled: strange turnout factor modeled" if var == "turnout_factor" else "non-modeled: strange margin change modeled")
        # an id flagged by the model but already excluded for an earlier reason keeps the earlier reason
        reason = {u: r for u, r in reason.items() if cats.get(u, {}).get("kind") == "fit"}
        _compare(units, cfg, rep, nonrep, other, viol, ctx, reason)
        cov["outlier_flagged_units"] += len(reason)
        both = {uid for uid in reason if sum(1 for _v, ids, _n in flagged if uid in ids) >= 2}
        cov["units_flagged_by_both_outlier_models"] += len(both)
        cov["outlier_consulted"] += len(flagged)
        outcomes.append((sorted(consulted), sorted(reason)))
        nontrivial = True
    elif kind == "client_outlier":
        from elexmodel.handlers.data.CombinedData import CombinedDataHandler

        est = ["margin"] if case["basis"] == "twoparty" else ["turnout"]
        units = E.background(case["seed"], "G", 24, "AA2")
        for i, u in enumerate(units[:2]):
            two = int((u["b_dem"] + u["b_gop"]) * (1.9 if i == 0 else 1.0))
            big, small = int(two * 0.95), two - int(two * 0.95)
            u["r_dem"], u["r_gop"] = (big, small) if u["b_dem"] < u["b_gop"] else (small, big)
            u["r_turnout"] = int(u["b_turnout"] * (1.9 if i == 0 else 1.0))
        units.append(E.make_probe(case["seed"], 0, "nonrep_partial", "pop0", weights="twoparty" if case["basis"] == "twoparty" else "turnout"))
        mp = {}
        if case["turnout_model"] is not None:
            mp["fit_turnout_outlier_model"] = case["turnout_model"]
        if case["margin_model"] is not None:
            mp["fit_margin_outlier_model"] = case["margin_model"]
        if case["basis"] == "twoparty":
            cfg = E.make_cfg(pi_method="bootstrap", estimands=est, features=["baseline_normalized_margin"], alphas=[0.7], aggregates=["postal_code", "unit"], model_parameters=dict(mp, B=5, lambda_=1.0))
        else:
            cfg = E.make_cfg(estimands=est, alphas=[0.7], aggregates=["postal_code", "unit"], model_parameters=mp)
        consulted = []
        orig = CombinedDataHandler._fit_outlier_detection_model

        def spy(self, reporting_units, response_variable, z):
            out = orig(self, reporting_units, response_variable, z)
            consulted.append((response_variable, sorted(out.geographic_unit_fips)))
            return out

        CombinedDataHandler._fit_outlier_detection_model = spy
        try:
            mpk, kwargs = E.call_kwargs(units, cfg)
            for k in ("fit_turnout_outlier_model", "fit_margin_outlier_model"):
                if k not in mp:
                    mpk.pop(k, None)  # leave the library default (enabled) in force
            from elexmodel.client import ModelClient

            baseline, feed = E.frames(units, cfg)
            try:
                tabs = ModelClient().get_estimates(feed, E.ELECTION_ID, "G", list(est), prediction_intervals=[0.7], percent_reporting_threshold=100, geographic_unit_type="precinct",
                                                   raw_config=E.raw_config(cfg), preprocessed_data=baseline, model_parameters=mpk, **kwargs)
                err = None
            except Exception as e:
                tabs, err = None, e
        finally:
            CombinedDataHandler._fit_outlier_detection_model = orig
        runs += 1
        ctx = f"client fit_turnout_outlier_model={case['turnout_model']} fit_margin_outlier_model={case['margin_model']} estimands={est}"
        t_on = case["turnout_model"] is not False  # the documented default is enabled
        m_on = case["margin_model"] is not False and "margin" in est
        names = {c[0] for c in consulted}
        if err is not None:
            viol("client-run-raised", f"{ctx}: {type(err).__name__}: {str(err)[:200]}")
        else:
            if ("turnout_factor" in names) != t_on:
                viol("outlier-switch-not-honoured", f"{ctx}: turnout outlier model {'was' if 'turnout_factor' in names else 'was not'} consulted")
            if ("results_normalized_margin" in names) != m_on:
                viol("outlier-switch-not-honoured", f"{ctx}: margin outlier model {'was' if 'results_normalized_margin' in names else 'was not'} consulted")
            flagged = {}
            for var, ids in consulted:
                for uid in ids:
                    flagged.setdefault(uid, "non-modeled: strange turnout factor modeled" if var == "turnout_factor" else "non-modeled: strange margin change modeled")
            got = {r["geographic_unit_fips"]: r["unit_category"] for r in E.tab_rows(E.table_to_obj(tabs["unit_data"]))}
            cats = R.categorize(units, cfg)
            for uid, c in cats.items():
                exp = flagged.get(uid, c["category"]) if c["kind"] == "fit" else c["category"]
                if got.get(uid) != exp:
                    viol("client-outlier-category", f"{ctx}: unit {uid} reported as {got.get(uid)!r}, expected {exp!r} (flagged: {flagged})")
            cov["client_outlier_runs"] += 1
            if flagged:
                cov["client_outlier_runs_with_flagged_units"] += 1
        outcomes.append(str(sorted(names)))
        nontrivial = True
    elif kind == "client":
        mp = {}
        if case["lower"] is not None:
            mp["turnout_factor_lower"] = case["lower"]
        if case["upper"] is not None:
            mp["turnout_factor_upper"] = case["upper"]
        units = E.background(case["seed"], "G", 12, "AA2") + [E.make_probe(case["seed"], 0, case["status"], "pop0"), E.make_probe(case["seed"], 1, "nonrep0", "pop1")]
        cfg = E.make_cfg(estimands=["turnout"], alphas=[0.7], aggregates=["postal_code", "unit"], model_parameters=mp)
        res = E.run_estimates(units, cfg)
        runs += 1
        ctx = f"client limits lower={case['lower']} upper={case['upper']} probe={case['status']}"
        if "error" in res:
            viol("client-run-raised", f"{ctx}: {res['error']}")
        else:
            cats = R.categorize(units, cfg)
            got = {r["geographic_unit_fips"]: (r["unit_category"], r["reporting"]) for r in E.tab_rows(res["ok"]["unit_data"])}
            exp = {u: (c["category"], c["reporting"]) for u, c in cats.items()}
            if got != exp:
                diff = {u: (got.get(u), exp.get(u)) for u in set(got) | set(exp) if got.get(u) != exp.get(u)}
                viol("client-limits-not-honoured", f"{ctx}: (got, expected) category/reporting per unit: {diff}")
            pc = cats[[u for u in units if u.get("status") == case["status"]][0]["id"]]
            cov["client_probe_" + pc["kind"]] += 1
            if case["lower"] == 0:
                cov["client_explicit_zero_limit"] += 1
        outcomes.append(case["status"])
        nontrivial = True
    else:
        import numpy as np
        import pandas as pd

        from elexmodel.handlers.data import Estimandizer as EZ

        dom = [0, 1, 7]
        rows = list(itertools.product(dom, repeat=5))
        df = pd.DataFrame(rows, columns=["results_dem", "results_gop", "results_turnout", "baseline_dem", "baseline_gop"])
        df["baseline_turnout"] = df.baseline_dem + df.baseline_gop + 1
        for dtype in (int, float):
            d = df.astype(dtype).copy()
            ez = EZ.Estimandizer()
            d, _ = ez.add_estimand_results(d, ["margin"], False)
            d = ez.add_estimand_baselines(d, {"margin": "margin"}, False)
            d = ez.add_turnout_factor(d)
            runs += len(d)
            for r in d.itertuples(index=False):
                ctx = f"dem={r.results_dem} gop={r.results_gop} turnout={r.results_turnout} bdem={r.baseline_dem} bgop={r.baseline_gop} dtype={dtype.__name__}"
                w = r.results_dem + r.results_gop
                bw = r.baseline_dem + r.baseline_gop
                exp = dict(
                    results_margin=r.results_dem - r.results_gop,
                    results_weights=w,
                    results_normalized_margin=(r.results_dem - r.results_gop) / w if w else 0.0,
                    baseline_weights=bw,
                    baseline_normalized_margin=(r.baseline_dem - r.baseline_gop) / bw if bw else 0.0,
                    turnout_factor=w / bw if bw else 0.0,
                    last_election_results_margin=(r.baseline_dem - r.baseline_gop) + 1,
                )
                for k, v in exp.items():
                    g = getattr(r, k)
                    if not math.isfinite(g):
                        viol("derived-not-finite", f"{ctx}: {k}={g}")
                    elif abs(float(g) - float(v)) > 1e-12:
                        viol("derived-value", f"{ctx}: {k}={g} expected {v}")
                if w == 0 or bw == 0:
                    cov["zero_denominators"] += 1
            d2 = df.astype(dtype).copy()
            d2, _ = EZ.Estimandizer().add_estimand_results(d2, ["turnout", "dem"], False)
            if not (d2.results_weights == d2.results_turnout).all():
                viol("derived-value", "results_weights != results_turnout for vote-count estimands")
        outcomes.append("estimandizer")
        nontrivial = True
    return {"violations": V, "cov": dict(cov), "outcome": sha(outcomes)[:16], "nontrivial": nontrivial, "transitions": max(1, runs)}


REQUIRED_COUNTERS = {"tf_exactly_at_limit": 200, "percent_exactly_at_threshold": 200, "precedence_cases": 200, "zero_denominators": 50, "outlier_consulted": 4, "units_flagged_by_both_outlier_models": 2, "feed_rows_without_results": 100, "client_explicit_zero_limit": 5, "client_probe_fit": 5, "client_probe_passthrough": 5}
