"""C18 - nothing persisted unless asked; results saved before a too-few-units error (E-FAULT, complete product)."""
import itertools
import os
import re
import shutil
import tempfile
from collections import Counter

from .. import election as E
from .. import fakes
from .. import scen as S
from ..env import S3_BUCKET, S3_ROOT
from ..runner import sha

PROPERTY = "C18"
LEVEL = "fault_enumeration"
ENGINE = "E-FAULT"
TECHNIQUE = "complete product of save_output subsets x environment x estimator x gate outcome x aggregate list, each run executed on the real client against a recording object store and a scratch working directory; expected write sequence derived from the statement"
RULE = (
    "save_output in all 16 subsets of {results,data,config,conformalization} plus 'argument omitted' x APP_ENV in {local, dev} (real process "
    "environment, one worker pool each) x estimator (3) x gate outcome {passes, fails, fails on a feed without rows, rejected for a repeated feed row} x aggregate list {default, with county}; after each passing "
    "bootstrap run also the national-summary call; the 17 save_output variants x environment with the configuration and / or the baseline data fetched from remote storage instead of handed in; the library's own command line entry point over the 16 subsets of --save_output x environment x two estimators; and every two-run history over save_output in {[], [conformalization], [results], [results, conformalization]}^2 x "
    "estimator pairs x {parameter argument omitted, one dictionary reused} in one process. Oracle: exact multiset of put_object keys, live-result keys first and present even when the gate "
    "fails, exact set of local files, every key matches ^<root>/<election id>/\\S+$ in the configured bucket. non-trivial = the run is expected to "
    "persist something (remote or local)"
)
ASSUMPTIONS = [
    "boto3.client is replaced by a recording fake (harness seam); APP_ENV is a real environment variable read at import",
    "every case (single run or two-run history) executes in a child forked from a pristine worker, so it starts from the initial process state",
    "conformalization data is written whenever requested with the gaussian estimator, in every environment (the statement attaches the local/non-local condition to 'results' only)",
]
OPTIONS = ["results", "data", "config", "conformalization"]
SELFCHECK_INDEX = 5


def bounds(tier):
    return {"save_output": "17 variants", "APP_ENV": ["local", "dev"] + (["prod"] if tier == "thorough" else []), "estimators": 3, "gate": ["passes", "fails"], "aggregate_lists": 2, "history_length": 2 if tier == "quick" else 3}


def cases(tier, seed):
    out = []
    subsets = [list(c) for r in range(0, 5) for c in itertools.combinations(OPTIONS, r)] + [None]
    for env in ("local", "dev"):
        for so in subsets:
            for setup in ("np2", "ga2", "bs1"):
                for gate in ("passes", "fails"):
                    for agg in ("pc", "pc_cf"):
                        out.append({"env": {"APP_ENV": env}, "save_output": so, "setup": setup, "gate": gate, "agg": agg, "seed": seed})
    # a feed without a single row (the contest has not been opened yet): the gate fails, the (empty) live results are still saved
    for env in ("local", "dev"):
        for so in subsets:
            for setup in ("np2", "bs1"):
                out.append({"env": {"APP_ENV": env}, "save_output": so, "setup": setup, "gate": "empty", "agg": "pc_cf", "seed": seed})
    # the feed repeats the row of one reporting unit: the run is rejected, after the live results have been saved
    for env in ("local", "dev"):
        for so in subsets:
            for setup in ("np2", "ga2"):
                out.append({"env": {"APP_ENV": env}, "save_output": so, "setup": setup, "gate": "duplicate", "agg": "pc_cf", "seed": seed})
    # the same options in other containers (the library's own CLI hands over a tuple)
    for env in ("local", "dev"):
        for so in (["results"], ["data", "config"], ["results", "conformalization"], []):
            for container in ("tuple", "frozenset"):
                for setup in ("np2", "ga2"):
                    for gate in ("passes", "fails"):
                        out.append({"env": {"APP_ENV": env}, "save_output": so, "container": container, "setup": setup, "gate": gate, "agg": "pc_cf", "seed": seed})
    # the configuration and / or the baseline data are not handed in but fetched from remote storage (the flow of the
    # library's own command line): reading them must not persist anything that was not asked for
    for env in ("local", "dev"):
        for so in subsets:
            for source in ("config", "data", "both"):
                out.append({"env": {"APP_ENV": env}, "save_output": so, "source": source, "setup": "np2", "gate": "passes", "agg": "pc_cf", "seed": seed})
    # the library's own command line (click entry point elexmodel.cli.cli): every subset of --save_output options,
    # configuration and data fetched from remote storage
    for env in ("local", "dev"):
        for so in subsets[:-1]:
            for pm in ("nonparametric", "gaussian"):
                out.append({"env": {"APP_ENV": env}, "kind": "cli", "save_output": so, "pm": pm, "seed": seed})
    # the historical client (replays an earlier election through the estimate run) with nothing, or only the calibration
    # data of an estimator that has none, requested
    for env in ("local", "dev"):
        for pm in ("nonparametric", "gaussian"):
            for so in ([], ["conformalization"] if pm == "nonparametric" else []):
                for gate in ("passes", "fails"):
                    out.append({"env": {"APP_ENV": env}, "kind": "historical", "save_output": so, "pm": pm, "gate": gate, "seed": seed})
    # histories: two estimate runs in one process, on fresh clients, with the parameter argument omitted (library default)
    # or one dictionary reused by the caller; the second run must persist exactly what *it* was asked to
    seq_opts = [[], ["conformalization"], ["results"], ["results", "conformalization"]]
    for env in ("local", "dev"):
        for first in seq_opts:
            for second in seq_opts:
                for pair in (("ga2", "ga2"), ("np2", "ga2"), ("ga2", "np2")):
                    for params in ("omitted", "shared_dict"):
                        out.append({"env": {"APP_ENV": env}, "kind": "sequence", "first": first, "second": second, "setups": list(pair), "params": params, "seed": seed})
    if tier == "thorough":
        # a second non-local environment name; single-estimand setups; three-run histories
        for so in subsets:
            for setup in ("np2", "ga2", "bs1", "np1", "ga1"):
                for gate in ("passes", "fails"):
                    out.append({"env": {"APP_ENV": "prod"}, "save_output": so, "setup": setup, "gate": gate, "agg": "pc_cf", "seed": seed})
        for env in ("local", "dev"):
            for so in subsets:
                for setup in ("np1", "ga1"):
                    for gate in ("passes", "fails"):
                        out.append({"env": {"APP_ENV": env}, "save_output": so, "setup": setup, "gate": gate, "agg": "pc_cf", "seed": seed})
        for env in ("local", "dev"):
            for steps in itertools.product(seq_opts, repeat=3):
                for triple in (("ga2", "ga2", "ga2"), ("ga2", "np2", "ga2")):
                    for params in ("omitted", "shared_dict"):
                        out.append({"env": {"APP_ENV": env}, "kind": "sequence", "first": steps[0], "second": steps[1], "steps": [list(x) for x in steps], "setups": list(triple), "params": params, "seed": seed})
    return out


def describe(case):
    return case


def worker_init():
    """Warm third-party code only (lazy imports, solver start-up); no elexmodel function is executed in the worker itself,
    so the children forked from it start from the library's initial state."""
    import numpy as np
    import pandas as pd
    import scipy.optimize  # noqa: F401
    import scipy.stats
    from elexsolver.OLSRegressionSolver import OLSRegressionSolver
    from elexsolver.QuantileRegressionSolver import QuantileRegressionSolver

    x = np.column_stack([np.ones(8), np.arange(8.0)])
    y = np.arange(8.0) ** 1.5
    QuantileRegressionSolver().fit(x, y, taus=0.5, weights=np.ones(8))
    QuantileRegressionSolver().fit(x, y, taus=0.5, weights=np.ones(8), lambda_=0.1)
    OLSRegressionSolver().fit(x, y.reshape(-1, 1), weights=np.ones((8, 1)))
    scipy.stats.bootstrap(y.reshape(1, -1), lambda v, axis: np.std(v, ddof=1, axis=-1), n_resamples=50, method="basic", random_state=1)
    pd.DataFrame({"a": ["x", "y"], "b": [1, 2]}).groupby("a").sum().merge(pd.DataFrame({"a": ["x"]}), on="a", how="outer")
    pd.get_dummies(pd.Series(["a", "b"]))


def _expected_keys(cfg, so, env, passed=True):
    base = f"{S3_ROOT}/{E.ELECTION_ID}"
    exp = []
    if env != "local" and "results" in so:
        exp += [f"{base}/results/G/precinct/current.csv", f"{base}/results/G/precinct/current_counties.csv"]
    if passed:
        if "conformalization" in so and cfg["pi_method"] == "gaussian":
            for e in cfg["estimands"]:
                for level in [a for a in cfg["aggregates"] if a != "unit"]:
                    for a in cfg["alphas"]:
                        exp.append(f"{base}/gaussian/G/precinct/{e}-{level}-{a}/conformalization_data.csv")
                        exp.append(f"{base}/gaussian/G/precinct/{e}-{level}-{a}/bounds.csv")
        if env != "local" and "results" in so:
            names = {"postal_code": "state_data", "county_fips": "county_data", "unit": "unit_data"}
            for a in cfg["aggregates"]:
                exp.append(f"{base}/predictions/G/precinct/{names[a]}/current.csv")
    return exp


def _cli(case):
    """One run of the command line entry point; inputs come from the (scripted) remote store, as on a fresh machine."""
    import json

    import numpy as np
    from click.testing import CliRunner

    from elexmodel import cli as climod

    cov = Counter()
    V = []
    env = case["env"]["APP_ENV"]
    so = list(case["save_output"])
    cfg = E.make_cfg(pi_method=case["pm"], estimands=["turnout"], alphas=[0.7], aggregates=["postal_code", "county_fips", "unit"], features=[])
    units = E.background(case["seed"], "G", 40, "AA2", partial=0)
    baseline, _ = E.frames(units, cfg)
    data = baseline.copy()
    byid = {u["id"]: u for u in units}
    for e in ("turnout", "dem", "gop"):
        data[f"results_{e}"] = [byid[i][f"r_{e}"] for i in data.geographic_unit_fips]
    fakes.S3_STORE.clear()
    fakes.S3_STORE[f"{S3_ROOT}/{E.ELECTION_ID}/config/{E.ELECTION_ID}.json"] = json.dumps(E.raw_config(cfg))
    fakes.S3_STORE[f"{S3_ROOT}/{E.ELECTION_ID}/data/G/data_precinct.csv"] = data.to_csv(index=False)
    args = [E.ELECTION_ID, "--office_id", "G", "--geographic_unit_type", "precinct", "--estimands", "turnout", "--pi_method", case["pm"], "--prediction_intervals", "0.7",
            "--percent_reporting", "75", "--aggregates", "postal_code", "--aggregates", "county_fips", "--aggregates", "unit",
            "--model_parameters", "{'fit_margin_outlier_model': False, 'fit_turnout_outlier_model': False}"]
    for o in so:
        args += ["--save_output", o]
    cwd0 = os.getcwd()
    scratch = tempfile.mkdtemp(prefix="mc_c18_")
    del fakes.S3_LOG[:]
    try:
        os.chdir(scratch)
        np.random.seed(case["seed"] + 11)  # the command line shuffles the units with numpy's global generator
        res = CliRunner().invoke(climod.cli, args, catch_exceptions=True)
        files = sorted(os.path.relpath(os.path.join(d, f), scratch) for d, _, fs in os.walk(scratch) for f in fs)
    finally:
        os.chdir(cwd0)
        shutil.rmtree(scratch, ignore_errors=True)
        fakes.S3_STORE.clear()
    log = list(fakes.S3_LOG)
    del fakes.S3_LOG[:]
    ctx = f"env={env} command line {case['pm']} --save_output {so or '(not given)'}"
    if res.exit_code != 0:
        V.append({"sig": "C18:cli-run-failed", "msg": f"{ctx}: exit code {res.exit_code}: {type(res.exception).__name__}: {str(res.exception)[:300]}"})
        return {"violations": V, "cov": dict(cov), "outcome": "failed", "nontrivial": True}
    keys = sorted(re.sub(r"\s+", "", r["Key"] or "") for r in log if r["op"] == "put_object")
    exp = sorted(_expected_keys(cfg, so, env))
    if keys != exp:
        kind = "nothing-requested-but-written" if not exp else ("remote-missing" if set(exp) - set(keys) else "remote-extra")
        V.append({"sig": f"C18:{kind}", "msg": f"{ctx}: remote writes extra={sorted(set(keys) - set(exp))} missing={sorted(set(exp) - set(keys))}"})
    exp_files = sorted(([f"data/{E.ELECTION_ID}/G/data_precinct.csv"] if "data" in so else []) + ([f"config/{E.ELECTION_ID}.json"] if "config" in so else []))
    if files != exp_files:
        V.append({"sig": "C18:local-files", "msg": f"{ctx}: local files {files}, expected {exp_files}"})
    cov["command_line_runs"] += 1
    if not exp and not exp_files:
        cov["command_line_runs_expecting_nothing"] += 1
    return {"violations": V, "cov": dict(cov), "outcome": sha([keys, files])[:16], "nontrivial": bool(exp or exp_files)}


def _sequence(case):
    from elexmodel.client import ModelClient

    cov = Counter()
    V = []
    env = case["env"]["APP_ENV"]
    units = E.background(case["seed"], "G", 16, "AA2") + [E.make_probe(case["seed"], 0, "nonrep_partial", "pop0")]
    shared = {}
    cwd0 = os.getcwd()
    scratch = tempfile.mkdtemp(prefix="mc_c18_")
    try:
        os.chdir(scratch)
        for step, (setup, so) in enumerate(zip(case["setups"], case.get("steps") or (case["first"], case["second"]))):
            cfg = S.cfg_for(setup, "pc_cf", "drop", 100)
            baseline, feed = E.frames(units, cfg)
            kwargs = dict(features=list(cfg["features"]), aggregates=list(cfg["aggregates"]), fixed_effects={}, pi_method=cfg["pi_method"], save_output=list(so), handle_unreporting="drop")
            if case["params"] == "shared_dict":
                kwargs["model_parameters"] = shared
            del fakes.S3_LOG[:]
            ModelClient().get_estimates(feed, E.ELECTION_ID, "G", list(cfg["estimands"]), prediction_intervals=list(cfg["alphas"]), percent_reporting_threshold=100,
                                        geographic_unit_type="precinct", raw_config=E.raw_config(cfg), preprocessed_data=baseline, **kwargs)
            keys = sorted(re.sub(r"\s+", "", r["Key"] or "") for r in fakes.S3_LOG if r["op"] == "put_object")
            exp = sorted(_expected_keys(cfg, so, env))
            if keys != exp:
                kind = "history-dependent-writes" if step >= 1 else "remote-missing"
                V.append({"sig": f"C18:{kind}", "msg": f"env={env} sequence {case['setups']} save_output {case.get('steps') or [case['first'], case['second']]} (model_parameters {case['params']}): run {step + 1} wrote extra={sorted(set(keys) - set(exp))} missing={sorted(set(exp) - set(keys))}"})
                break
            cov["sequence_runs"] += 1
    finally:
        os.chdir(cwd0)
        shutil.rmtree(scratch, ignore_errors=True)
        del fakes.S3_LOG[:]
    cov["sequences"] += 1
    return {"violations": V, "cov": dict(cov), "outcome": sha([v["sig"] for v in V]), "nontrivial": True, "transitions": len(case["setups"])}


def _historical(case):
    """The historical client (replays an earlier election through get_estimates) with nothing requested: nothing is written."""
    import json

    from elexmodel.client import HistoricalModelClient

    from . import c10, c12

    cov = Counter()
    V = []
    env = case["env"]["APP_ENV"]
    units = c12.election(case["seed"])
    if case["gate"] == "fails":
        for u in units[3:]:
            u["pev"] = 0.0
    cfg = E.make_cfg(estimands=["turnout"], pi_method=case["pm"], alphas=[0.7])
    rc = E.raw_config(cfg)
    rc[E.ELECTION_ID][0]["historical_election"] = [c10.HIST_ID]
    hist_cfg = {c10.HIST_ID: [dict(rc[E.ELECTION_ID][0], historical_election=[])]}
    baseline, feed = E.frames(units, cfg)
    df = baseline.copy()
    df["results_turnout"] = (df.baseline_turnout * 1.1).astype(int)
    df["results_dem"] = (df.baseline_dem * 1.2).astype(int)
    df["results_gop"] = (df.baseline_gop * 0.9).astype(int)
    scratch = tempfile.mkdtemp(prefix="mc_c18_")
    cwd0 = os.getcwd()
    del fakes.S3_LOG[:]
    err = None
    try:
        os.chdir(scratch)
        os.makedirs("config")
        os.makedirs(f"data/{c10.HIST_ID}/G")
        json.dump(rc, open(f"config/{E.ELECTION_ID}.json", "w"))
        json.dump(hist_cfg, open(f"config/{c10.HIST_ID}.json", "w"))
        df.to_csv(f"data/{c10.HIST_ID}/G/data_precinct.csv", index=False)
        before = sorted(os.path.relpath(os.path.join(d, f), scratch) for d, _, fs in os.walk(scratch) for f in fs)
        try:
            HistoricalModelClient().get_historical_evaluation(
                feed[feed.geographic_unit_fips.isin(baseline.geographic_unit_fips)], E.ELECTION_ID, "G", ["turnout"], [0.7], 100, "precinct",
                aggregates=["postal_code", "county_fips"], pi_method=case["pm"], save_output=list(case["save_output"]), features=[],
                model_parameters={"fit_margin_outlier_model": False, "fit_turnout_outlier_model": False},
            )
        except Exception as e:
            err = type(e).__name__
        after = sorted(os.path.relpath(os.path.join(d, f), scratch) for d, _, fs in os.walk(scratch) for f in fs)
    finally:
        os.chdir(cwd0)
        shutil.rmtree(scratch, ignore_errors=True)
    keys = sorted(re.sub(r"\s+", "", r["Key"] or "") for r in fakes.S3_LOG if r["op"] == "put_object")
    del fakes.S3_LOG[:]
    ctx = f"env={env} historical evaluation {case['pm']} save_output={case['save_output']} gate={case['gate']} (ended with {err or 'tables'})"
    if keys:
        V.append({"sig": "C18:nothing-requested-but-written", "msg": f"{ctx}: remote writes {keys}"})
    if after != before:
        V.append({"sig": "C18:local-files", "msg": f"{ctx}: local files created {sorted(set(after) - set(before))}"})
    cov["historical_client_runs"] += 1
    cov["historical_client_runs_" + ("raised" if err else "completed")] += 1
    return {"violations": V, "cov": dict(cov), "outcome": sha([keys, after, err])[:16], "nontrivial": True}


def evaluate(case):
    """Every case runs in a child forked from the (never used, hence pristine) worker: persistence must not depend on what
    an earlier case left behind in the process (module state, mutable defaults), and a history must start from the
    initial process state."""
    import pickle

    r, w = os.pipe()
    pid = os.fork()
    if pid == 0:
        code = 0
        try:
            os.close(r)
            try:
                res = _evaluate(case)
            except BaseException as e:  # reported by the parent as a harness error
                import traceback

                res = {"harness_error": f"{type(e).__name__}: {e}", "traceback": traceback.format_exc(limit=10)}
            with os.fdopen(w, "wb") as f:
                f.write(pickle.dumps(res))
        except BaseException:
            code = 1
        finally:
            os._exit(code)
    os.close(w)
    with os.fdopen(r, "rb") as f:
        data = f.read()
    os.waitpid(pid, 0)
    return pickle.loads(data)


def _evaluate(case):
    from elexmodel.client import ModelClient

    if case.get("kind") == "sequence":
        return _sequence(case)
    if case.get("kind") == "cli":
        return _cli(case)
    if case.get("kind") == "historical":
        return _historical(case)
    cov = Counter()
    V = []
    env = case["env"]["APP_ENV"]
    setup = case["setup"]

    def viol(kind, msg):
        if not any(v["sig"] == f"C18:{kind}" for v in V):
            V.append({"sig": f"C18:{kind}", "msg": f"env={env} save_output={case['save_output']} inputs_from_remote={case.get('source') or 'none'} {setup} gate={case['gate']} agg={case['agg']}: {msg}"})

    cfg = S.cfg_for(setup, case["agg"], "drop", 100)
    n = 16 if case["gate"] in ("passes", "duplicate") else 2
    units = E.background(case["seed"], "G", n, "AA2") + [E.make_probe(case["seed"], 0, "nonrep_partial", "pop0", weights="twoparty" if setup == "bs1" else "turnout")]
    baseline, feed = E.frames(units, cfg)
    if case["gate"] == "empty":
        feed = feed.iloc[0:0].copy()
        cov["runs_with_empty_feed"] += 1
    if case["gate"] == "duplicate":
        import pandas as pd

        rep_id = [u["id"] for u in units if u["role"] == "bg"][0]
        feed = pd.concat([feed, feed[feed.geographic_unit_fips == rep_id]], ignore_index=True)
        cov["runs_with_duplicated_feed_row"] += 1
    mp, kwargs = E.call_kwargs(units, cfg)
    if case["save_output"] is None:
        kwargs.pop("save_output")
        so = ["results"]
    else:
        kwargs["save_output"] = {"tuple": tuple, "frozenset": frozenset}.get(case.get("container"), list)(case["save_output"])
        so = list(case["save_output"])
        if case.get("container"):
            cov["non_list_containers"] += 1
    cwd0 = os.getcwd()
    scratch = tempfile.mkdtemp(prefix="mc_c18_")
    del fakes.S3_LOG[:]
    nat_keys_expected = []
    source = case.get("source")
    fakes.S3_STORE.clear()
    if source:
        import json

        fakes.S3_STORE[f"{S3_ROOT}/{E.ELECTION_ID}/config/{E.ELECTION_ID}.json"] = json.dumps(E.raw_config(cfg))
        fakes.S3_STORE[f"{S3_ROOT}/{E.ELECTION_ID}/data/G/data_precinct.csv"] = baseline.to_csv(index=False)
        cov["runs_reading_inputs_from_remote_storage"] += 1
    try:
        os.chdir(scratch)
        client = ModelClient()
        try:
            client.get_estimates(
                feed, E.ELECTION_ID, "G", list(cfg["estimands"]), prediction_intervals=list(cfg["alphas"]), percent_reporting_threshold=100,
                geographic_unit_type="precinct", raw_config=None if source in ("config", "both") else E.raw_config(cfg),
                preprocessed_data=None if source in ("data", "both") else baseline, model_parameters=mp, **kwargs,
            )
            outcome = "completed"
        except Exception as e:
            outcome = type(e).__name__
        if outcome == "completed" and setup == "bs1":
            try:
                client.get_national_summary_votes_estimates(None, 0, [0.9])
                if env != "local" and "results" in so:
                    nat_keys_expected.append("nat_sum_data")
            except Exception:
                cov["summary_raised"] += 1  # judged by C08, not here
        files = sorted(os.path.relpath(os.path.join(d, f), scratch) for d, _, fs in os.walk(scratch) for f in fs)
    finally:
        os.chdir(cwd0)
        shutil.rmtree(scratch, ignore_errors=True)
        fakes.S3_STORE.clear()
    log = list(fakes.S3_LOG)
    del fakes.S3_LOG[:]
    expected_outcome = {"passes": "completed", "duplicate": "ModelClientException"}.get(case["gate"], "ModelNotEnoughSubunitsException")
    if outcome != expected_outcome:
        viol("unexpected-outcome", f"run ended with {outcome}, expected {expected_outcome}")
    # expected remote keys, from the statement
    base = f"{S3_ROOT}/{E.ELECTION_ID}"
    live = [f"{base}/results/G/precinct/current.csv", f"{base}/results/G/precinct/current_counties.csv"]
    exp = []
    if env != "local" and "results" in so:
        exp += live
        cov["expect_live_results"] += 1
        if case["gate"] != "passes":
            cov["live_results_with_failing_gate"] += 1
    if case["gate"] == "passes":
        if "conformalization" in so and cfg["pi_method"] == "gaussian":
            for e in cfg["estimands"]:
                for level in [a for a in cfg["aggregates"] if a != "unit"]:
                    for a in cfg["alphas"]:
                        exp.append(f"{base}/gaussian/G/precinct/{e}-{level}-{a}/conformalization_data.csv")
                        exp.append(f"{base}/gaussian/G/precinct/{e}-{level}-{a}/bounds.csv")
            cov["expect_conformalization"] += 1
        if env != "local" and "results" in so:
            names = {"postal_code": "state_data", "county_fips": "county_data", "unit": "unit_data"}
            for a in cfg["aggregates"]:
                exp.append(f"{base}/predictions/G/precinct/{names[a]}/current.csv")
            for k in nat_keys_expected:
                exp.append(f"{base}/predictions/G/precinct/{k}/current.csv")
    gets = [r for r in log if r["op"] != "put_object"]
    if gets:
        viol("remote-read", f"unexpected remote reads {gets[:3]}")
    puts = [r for r in log if r["op"] == "put_object"]
    keys = [r["Key"] for r in puts]
    pat = re.compile(r"^" + re.escape(base) + r"/\S+$")
    for r in puts:
        if not pat.match(r["Key"] or ""):
            viol("key-not-clean-path", f"remote key {r['Key']!r} is not a whitespace-free path under {base}/")
        if r["Bucket"] != S3_BUCKET:
            viol("wrong-bucket", f"bucket {r['Bucket']!r}")
    norm = [re.sub(r"\s+", "", k or "") for k in keys]
    if sorted(norm) != sorted(exp):
        missing = sorted(set(exp) - set(norm))
        extra = sorted(set(norm) - set(exp))
        dup = sorted({k for k in norm if norm.count(k) > exp.count(k)})
        kind = "nothing-requested-but-written" if not exp else ("remote-missing" if missing else "remote-extra")
        viol(kind, f"remote writes differ: missing={missing} extra={extra} surplus={dup}")
    elif exp[:2] == live and norm[:2] != live:
        viol("live-results-not-first", f"live results were not the first remote writes: {norm[:3]}")
    # local files
    exp_files = []
    if "data" in so:
        exp_files.append(f"data/{E.ELECTION_ID}/G/data_precinct.csv")
    if "config" in so:
        exp_files.append(f"config/{E.ELECTION_ID}.json")
    if files != sorted(exp_files):
        viol("local-files", f"local files {files}, expected {sorted(exp_files)}")
    if exp_files:
        cov["expect_local_files"] += 1
    if not exp and not exp_files:
        cov["expect_nothing"] += 1
    cov["remote_writes_seen"] += len(puts)
    return {"violations": V, "cov": dict(cov), "outcome": sha([norm, files, outcome])[:16], "nontrivial": bool(exp or exp_files)}


REQUIRED_COUNTERS = {"expect_live_results": 50, "live_results_with_failing_gate": 20, "expect_conformalization": 10, "expect_local_files": 100, "expect_nothing": 20, "sequences": 100, "non_list_containers": 30, "runs_reading_inputs_from_remote_storage": 100, "command_line_runs": 50, "command_line_runs_expecting_nothing": 4, "runs_with_empty_feed": 30, "runs_with_duplicated_feed_row": 30}
