"""CLI:  python -m mc check <ID> [--tier quick|thorough]   |   replay <path>   |   selftest"""
import argparse
import os
import sys


def _reexec_with_env():
    """The pool forks; hash seed and BLAS threading are fixed at interpreter start, so pin them."""
    from .env import BASE_ENV

    want = {k: v for k, v in BASE_ENV.items() if k != "APP_ENV"}
    if os.environ.get("MC_REEXEC") == "1" and os.environ.get("PYTHONHASHSEED") == "0":
        return
    env = dict(os.environ)
    env.update(want)
    env["MC_REEXEC"] = "1"
    os.execve(sys.executable, [sys.executable, "-m", "mc"] + sys.argv[1:], env)


def main():
    _reexec_with_env()
    ap = argparse.ArgumentParser(prog="mc")
    sub = ap.add_subparsers(dest="cmd", required=True)
    c = sub.add_parser("check")
    c.add_argument("pid")
    c.add_argument("--tier", default=os.environ.get("VERIF_TIER", "quick"), choices=["quick", "thorough"])
    c.add_argument("--procs", type=int, default=None)
    r = sub.add_parser("replay")
    r.add_argument("path")
    sub.add_parser("selftest")
    args = ap.parse_args()

    from . import runner

    if args.cmd == "check":
        sys.exit(runner.run_check(args.pid.upper(), args.tier, procs=args.procs))
    if args.cmd == "replay":
        sys.exit(runner.replay(args.path))
    if args.cmd == "selftest":
        from . import selftest

        sys.exit(selftest.main())


if __name__ == "__main__":
    main()
