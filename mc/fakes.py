"""Harness-owned seams (E-FAULT).  Installed by rebinding module attributes inside worker processes;
the repository is not edited for any of them."""
import hashlib
import sys
import warnings


def _h(a):
    import numpy as np

    a = np.ascontiguousarray(np.asarray(a, dtype=float))
    return hashlib.sha1(a.tobytes()).hexdigest()[:12] + f":{a.shape}"


INACCURATE_MSG = "Solution may be inaccurate. Try another solver, adjusting the solver settings, or solve with verbose=True for more information."
_EMITTERS = {}


def _in_elexsolver_frame(src):
    """Compile `src` (defining f) as if it were code of elexsolver/QuantileRegressionSolver.py: warnings are attributed by
    file / module of the issuing frame, and the solver module is where cvxpy is called from in a real run."""
    import elexsolver.QuantileRegressionSolver as qrs

    g = {"__name__": qrs.__name__, "__file__": qrs.__file__}
    exec(compile(src, qrs.__file__, "exec"), g)
    return g["f"]


def emit_cvxpy_inaccuracy_warning():
    """Issue cvxpy's 'Solution may be inaccurate' UserWarning the way the *installed* cvxpy issues it during
    QuantileRegressionSolver._fit_with_regularization: recent cvxpy (utilities.warn) attributes it to the first frame
    outside the cvxpy package, i.e. to elexsolver's module; older releases used a plain warnings.warn inside
    cvxpy/problems/problem.py.  genuine_cvxpy_inaccuracy_attribution() validates this against a real solve."""
    if "emit" not in _EMITTERS:
        try:
            from cvxpy.utilities.warn import warn as cvxpy_warn  # noqa: F401

            f = _in_elexsolver_frame("def f(warn, msg):\n    warn(msg)\n")
            _EMITTERS["emit"] = lambda: f(cvxpy_warn, INACCURATE_MSG)
        except ImportError:
            _EMITTERS["emit"] = lambda: warnings.warn_explicit(INACCURATE_MSG, UserWarning, filename="cvxpy/problems/problem.py", lineno=1, module="cvxpy.problems.problem", registry={})
    _EMITTERS["emit"]()


def genuine_cvxpy_inaccuracy_attribution():
    """(filename of a genuine inaccuracy warning raised by a real, deliberately under-converged cvxpy solve called from an
    elexsolver-like frame, filename of the seam's emission) - the two must agree."""
    src = (
        "def f(cp, np):\n"
        "    x = cp.Variable(3)\n"
        "    A = np.random.RandomState(0).randn(10, 3); b = np.random.RandomState(1).randn(10)\n"
        "    prob = cp.Problem(cp.Minimize(cp.sum(cp.abs(A @ x - b)) + 0.1 * cp.pnorm(x, 2) ** 2))\n"
        "    prob.solve(solver=cp.CLARABEL, tol_gap_abs=1e-40, tol_gap_rel=1e-40, tol_feas=1e-40, tol_infeas_abs=1e-40, tol_infeas_rel=1e-40, tol_ktratio=1e-40, max_iter=60)\n"
        "    return prob.status\n"
    )
    import cvxpy as cp
    import numpy as np

    f = _in_elexsolver_frame(src)
    with warnings.catch_warnings(record=True) as w1:
        warnings.simplefilter("always")
        status = f(cp, np)
    genuine = [x for x in w1 if "inaccurate" in str(x.message)]
    with warnings.catch_warnings(record=True) as w2:
        warnings.simplefilter("always")
        emit_cvxpy_inaccuracy_warning()
    if status != "optimal_inaccurate" or not genuine or not w2:
        raise RuntimeError(f"could not provoke a genuine cvxpy inaccuracy warning (status {status})")
    return genuine[0].filename, w2[0].filename, genuine[0].category.__name__, w2[0].category.__name__


class SolverSeam:
    """Wraps QuantileRegressionSolver.fit and its per-quantile solves (_fit / _fit_with_regularization).

    fit() calls issued by ConformalElectionModel.fit_model are recorded; the per-quantile solves made inside their
    *first attempts* are numbered, and at the planned positions that solve fails with the planned kind - where the
    real failures happen (inside the solve of one quantile, possibly after earlier quantiles of the same fit() call
    succeeded).  Solves inside a retry are never failed."""

    def __init__(self):
        from elexsolver.QuantileRegressionSolver import QuantileRegressionSolver

        self.cls = QuantileRegressionSolver
        self.orig_fit = QuantileRegressionSolver.fit
        self.orig_solves = {name: getattr(QuantileRegressionSolver, name) for name in ("_fit", "_fit_with_regularization")}
        self.reset()
        seam = self

        def fit(solver, *args, **kwargs):
            caller = sys._getframe(1).f_code.co_name
            if caller != "fit_model":
                return seam.orig_fit(solver, *args, **kwargs)
            rec = seam._record(solver, args, kwargs)
            if seam._pending_retry is not None and seam._pending_retry["solver"] == id(solver):
                rec["retry_of"] = seam._pending_retry["position"]
                seam._pending_retry = None
            seam.calls.append(rec)
            seam._current.append(rec)
            try:
                return seam.orig_fit(solver, *args, **kwargs)
            finally:
                seam._current.pop()

        def make_solve(name):
            orig = seam.orig_solves[name]

            def solve(solver, *args, **kwargs):
                if not seam._current or "retry_of" in seam._current[-1]:
                    return orig(solver, *args, **kwargs)
                rec = seam._current[-1]
                seam.position += 1
                rec.setdefault("positions", []).append(seam.position)
                kind = seam.plan.get(seam.position)
                if kind is None:
                    return orig(solver, *args, **kwargs)
                rec["fault"] = kind
                rec["position"] = seam.position
                if kind == "solver_error":
                    import cvxpy

                    seam._pending_retry = {"solver": id(solver), "position": seam.position}
                    raise cvxpy.error.SolverError("injected: solver failed")
                seam._pending_retry = {"solver": id(solver), "position": seam.position}
                # exactly what the installed cvxpy does for an inaccurate solution (see emit_cvxpy_inaccuracy_warning)
                emit_cvxpy_inaccuracy_warning()
                # not turned into an exception: the solve goes on as if nothing happened
                seam._pending_retry = None
                rec["warning_not_raised"] = True
                return orig(solver, *args, **kwargs)

            return solve

        self.fit_wrapper = fit
        self.solve_wrappers = {name: make_solve(name) for name in self.orig_solves}

    def _record(self, solver, args, kwargs):
        names = ["x", "y", "taus", "weights", "lambda_", "fit_intercept", "regularize_intercept", "n_feat_ignore_reg", "normalize_weights"]
        bound = dict(zip(names, args))
        extra = [k for k in kwargs if k not in names]
        bound.update({k: v for k, v in kwargs.items() if k in names})
        taus = bound.get("taus", "<default 0.5>")
        return {
            "x": _h(bound["x"]),
            "y": _h(bound["y"]),
            "taus": list(taus) if isinstance(taus, (list, tuple)) else taus,
            "weights": _h(bound["weights"]) if bound.get("weights") is not None else None,
            "weights_sum": float(sum(bound["weights"])) if bound.get("weights") is not None else None,
            "lambda_": bound.get("lambda_", 0.0),
            "fit_intercept": bound.get("fit_intercept", True),
            "normalize_weights": bound.get("normalize_weights", True),
            "unknown_kwargs": extra,
            "solver": id(solver),
        }

    def install(self):
        self.cls.fit = self.fit_wrapper
        for name, w in self.solve_wrappers.items():
            setattr(self.cls, name, w)

    def uninstall(self):
        self.cls.fit = self.orig_fit
        for name, o in self.orig_solves.items():
            setattr(self.cls, name, o)

    def reset(self, plan=None):
        self.plan = dict(plan or {})
        self.calls = []
        self.position = 0
        self._pending_retry = None
        self._current = []


class RecordingS3Client:
    """Stands in for boto3.client('s3'): records put_object calls, refuses reads."""

    def __init__(self, log):
        self.log = log

    def put_object(self, **kwargs):
        body = kwargs.get("Body")
        self.log.append({"op": "put_object", "Bucket": kwargs.get("Bucket"), "Key": kwargs.get("Key"), "ContentType": kwargs.get("ContentType"), "size": len(body) if body is not None else None})
        return {"ResponseMetadata": {"HTTPStatusCode": 200}}

    def get_object(self, **kwargs):
        import datetime
        import io

        key = kwargs.get("Key")
        if key in S3_STORE:  # scripted remote content (e.g. the presidential files of correct_from_presidential)
            return {"Body": io.BytesIO(S3_STORE[key].encode("utf-8")), "LastModified": datetime.datetime(2099, 11, 3, 21, 0, 0)}
        self.log.append({"op": "get_object", "Bucket": kwargs.get("Bucket"), "Key": key})
        raise RuntimeError("harness: no remote reads expected")


S3_LOG = []
S3_STORE = {}


def install_fake_boto3():
    """boto3.client -> recording fake (object-store seam)."""
    import boto3

    def client(name, *a, **k):
        assert name == "s3"
        return RecordingS3Client(S3_LOG)

    boto3.client = client
