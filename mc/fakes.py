"""Harness-owned seams (E-FAULT).  Installed by rebinding module attributes inside worker processes;
the repository is not edited for any of them."""
import hashlib
import sys
import warnings


def _h(a):
    import numpy as np

    a = np.ascontiguousarray(np.asarray(a, dtype=float))
    return hashlib.sha1(a.tobytes()).hexdigest()[:12] + f":{a.shape}"


class SolverSeam:
    """Wraps QuantileRegressionSolver.fit.  Calls issued by ConformalElectionModel.fit_model are numbered
    (first attempts only); at the planned positions the first attempt fails with the planned kind."""

    def __init__(self):
        from elexsolver.QuantileRegressionSolver import QuantileRegressionSolver

        self.cls = QuantileRegressionSolver
        self.orig = QuantileRegressionSolver.fit
        self.plan = {}
        self.calls = []
        self.position = 0
        self._pending_retry = None
        seam = self

        def fit(solver, *args, **kwargs):
            caller = sys._getframe(1).f_code.co_name
            if caller != "fit_model":
                return seam.orig(solver, *args, **kwargs)
            rec = seam._record(solver, args, kwargs)
            if seam._pending_retry is not None and seam._pending_retry["solver"] == id(solver):
                rec["retry_of"] = seam._pending_retry["position"]
                seam._pending_retry = None
                seam.calls.append(rec)
                return seam.orig(solver, *args, **kwargs)
            seam.position += 1
            rec["position"] = seam.position
            kind = seam.plan.get(seam.position)
            rec["fault"] = kind
            seam.calls.append(rec)
            if kind == "solver_error":
                import cvxpy

                seam._pending_retry = {"solver": id(solver), "position": seam.position}
                raise cvxpy.error.SolverError("injected: solver failed")
            if kind == "inaccurate":
                seam._pending_retry = {"solver": id(solver), "position": seam.position}
                # exactly what cvxpy does for an inaccurate solution: a UserWarning issued from its own module
                warnings.warn_explicit(
                    "Solution may be inaccurate. Try another solver, adjusting the solver settings, or solve with verbose=True for more information.",
                    UserWarning,
                    filename="cvxpy/problems/problem.py",
                    lineno=1,
                    module="cvxpy.problems.problem",
                    registry={},
                )
                # not turned into an exception: the fit goes on as if nothing happened
                seam._pending_retry = None
                rec["warning_not_raised"] = True
            return seam.orig(solver, *args, **kwargs)

        self.wrapper = fit

    def _record(self, solver, args, kwargs):
        names = ["x", "y", "taus", "weights", "lambda_", "fit_intercept", "regularize_intercept", "n_feat_ignore_reg", "normalize_weights"]
        bound = dict(zip(names, args))
        extra = [k for k in kwargs if k not in names]
        bound.update({k: v for k, v in kwargs.items() if k in names})
        return {
            "x": _h(bound["x"]),
            "y": _h(bound["y"]),
            "taus": bound.get("taus", "<default 0.5>"),
            "weights": _h(bound["weights"]) if bound.get("weights") is not None else None,
            "weights_sum": float(sum(bound["weights"])) if bound.get("weights") is not None else None,
            "lambda_": bound.get("lambda_", 0.0),
            "fit_intercept": bound.get("fit_intercept", True),
            "normalize_weights": bound.get("normalize_weights", True),
            "unknown_kwargs": extra,
            "solver": id(solver),
        }

    def install(self):
        self.cls.fit = self.wrapper

    def uninstall(self):
        self.cls.fit = self.orig

    def reset(self, plan=None):
        self.plan = dict(plan or {})
        self.calls = []
        self.position = 0
        self._pending_retry = None


class RecordingS3Client:
    """Stands in for boto3.client('s3'): records put_object calls, refuses reads."""

    def __init__(self, log):
        self.log = log

    def put_object(self, **kwargs):
        body = kwargs.get("Body")
        self.log.append({"op": "put_object", "Bucket": kwargs.get("Bucket"), "Key": kwargs.get("Key"), "ContentType": kwargs.get("ContentType"), "size": len(body) if body is not None else None})
        return {"ResponseMetadata": {"HTTPStatusCode": 200}}

    def get_object(self, **kwargs):
        self.log.append({"op": "get_object", "Bucket": kwargs.get("Bucket"), "Key": kwargs.get("Key")})
        raise RuntimeError("harness: no remote reads expected")


S3_LOG = []


def install_fake_boto3():
    """boto3.client -> recording fake (object-store seam)."""
    import boto3

    def client(name, *a, **k):
        assert name == "s3"
        return RecordingS3Client(S3_LOG)

    boto3.client = client
