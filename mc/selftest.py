"""setup_cmd: imports, provenance of elexmodel, determinism probe, evidence-schema dry run."""
import json
import os
import sys

from . import runner
from .pool import run_fresh


def main():
    if "elexmodel" in sys.modules:
        print("selftest: parent imported elexmodel")
        return 2
    mods = sorted(f[:-3] for f in os.listdir(os.path.join(os.path.dirname(__file__), "checks")) if f.startswith("c") and f.endswith(".py"))
    for m in mods:
        runner.load_check(m.upper())
    # determinism probe on one C01 case in two fresh processes
    c01 = runner.load_check("C01")
    case = c01.cases("quick", 0)[7]
    a = run_fresh(c01.__name__, [case])[0]
    b = run_fresh(c01.__name__, [case])[0]
    if "harness_error" in a:
        print("selftest: harness error", a["harness_error"], a.get("traceback"))
        return 2
    if runner.canon(a) != runner.canon(b):
        print("selftest: nondeterministic observation")
        return 2
    dry = {
        "property_id": "C00",
        "tier": "quick",
        "seed": 0,
        "level": "model_checking",
        "coverage": {"states": 1, "transitions": 1, "traces_validated_against_impl": 1, "samples": [case]},
        "wall_s": 0.0,
    }
    runner._validate(dry)
    with open("/verif/MANIFEST.json") as f:
        json.load(f)
    print(f"selftest ok: {len(mods)} check modules, elexmodel from /repo/src, deterministic probe, schema valid")
    return 0
