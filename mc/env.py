"""Process environment for workers that import the code under test."""
import os
import sys

# MC_REPO_SRC is a debugging aid only (scratch worktree with a seeded change); registered commands never set it
REPO_SRC = os.environ.get("MC_REPO_SRC", "/repo/src")
VERIF = os.path.dirname(os.path.dirname(os.path.abspath(__file__)))

BASE_ENV = {
    "APP_ENV": "local",
    "DATA_ENV": "dev",
    "MODEL_S3_BUCKET": "verif-bucket",
    "MODEL_S3_PATH_ROOT": "verif-root",
    "APP_LOG_LEVEL": "ERROR",
    "PYTHONHASHSEED": "0",
    "ELEX_LIVE_MODEL_VERIF": "1",
    "AWS_DEFAULT_REGION": "us-east-1",
    "AWS_ACCESS_KEY_ID": "x",
    "AWS_SECRET_ACCESS_KEY": "x",
    "AWS_EC2_METADATA_DISABLED": "true",
    "OMP_NUM_THREADS": "1",
    "OPENBLAS_NUM_THREADS": "1",
    "MKL_NUM_THREADS": "1",
}

S3_ROOT = "verif-root-dev"  # f"{MODEL_S3_PATH_ROOT}-{DATA_ENV}"
S3_BUCKET = "verif-bucket-dev"


def apply_env(extra=None):
    """Set the environment *before* elexmodel is imported (it reads it at import)."""
    env = dict(BASE_ENV)
    if extra:
        env.update(extra)
    for k, v in env.items():
        os.environ[k] = v
    if REPO_SRC not in sys.path:
        sys.path.insert(0, REPO_SRC)
    elif sys.path[0] != REPO_SRC:
        sys.path.remove(REPO_SRC)
        sys.path.insert(0, REPO_SRC)


def import_elexmodel():
    """Import the code under test and make sure it is /repo's working tree."""
    import warnings

    warnings.filterwarnings("ignore", category=DeprecationWarning)
    warnings.filterwarnings("ignore", category=FutureWarning)
    import elexmodel  # noqa

    here = os.path.realpath(elexmodel.__path__[0])
    if not here.startswith(os.path.realpath(REPO_SRC)):
        raise RuntimeError(f"elexmodel imported from {here}, not from {REPO_SRC}")
    import logging

    logging.getLogger("elexmodel").setLevel(logging.CRITICAL)
    logging.getLogger("elexsolver").setLevel(logging.CRITICAL)
    logging.disable(logging.CRITICAL)
    return elexmodel


def seed_from_env():
    try:
        return int(os.environ.get("VERIF_SEED", "0"))
    except ValueError:
        return 0
