"""Generic exhaustive-exploration runner shared by all checks."""
import hashlib
import importlib
import json
import os
import sys
import time
from collections import Counter, defaultdict

from . import findings
from .env import VERIF, seed_from_env
from .pool import Pool, run_fresh

EVIDENCE_DIR = os.path.join(VERIF, "evidence")
REPLAY_DIR = os.path.join(VERIF, "replays") if not os.environ.get("MC_REPO_SRC") else "/tmp/mc_debug_replays"
SCHEMA = "/root/.vp/EVIDENCE.schema.json"
SCHEMA_COPY = os.path.join(VERIF, "mc", "EVIDENCE.schema.json")


def canon(obj):
    return json.dumps(obj, sort_keys=True, separators=(",", ":"), default=str)


def sha(obj):
    return hashlib.sha1(canon(obj).encode()).hexdigest()


def load_check(pid):
    return importlib.import_module(f"mc.checks.{pid.lower()}")


def _validate(evidence):
    try:
        import jsonschema
    except Exception:  # pragma: no cover
        return
    path = SCHEMA if os.path.exists(SCHEMA) else SCHEMA_COPY
    with open(path) as f:
        schema = json.load(f)
    jsonschema.validate(evidence, schema)


def write_evidence(pid, evidence):
    _validate(evidence)
    # a debugging run against a scratch copy of the repository (MC_REPO_SRC) must not overwrite the real evidence
    d = EVIDENCE_DIR if not os.environ.get("MC_REPO_SRC") else os.path.join("/tmp", "mc_debug_evidence")
    os.makedirs(d, exist_ok=True)
    path = os.path.join(d, f"{pid}.json")
    tmp = path + ".tmp"
    with open(tmp, "w") as f:
        json.dump(evidence, f, indent=1, sort_keys=True, default=str)
        f.write("\n")
    os.replace(tmp, path)
    return path


def write_replay(pid, case, violations, tier, seed):
    d = os.path.join(REPLAY_DIR, pid)
    os.makedirs(d, exist_ok=True)
    body = {"property": pid, "tier": tier, "seed": seed, "case": case, "violations": violations}
    path = os.path.join(d, sha({"case": case, "sigs": sorted(v["sig"] for v in violations)}) + ".json")
    with open(path, "w") as f:
        json.dump(body, f, indent=1, sort_keys=True, default=str)
        f.write("\n")
    return path


def _group_cases(mod, cases):
    """Cases may carry an 'env' dict (process-level inputs such as APP_ENV); one pool per value."""
    groups = defaultdict(list)
    for i, c in enumerate(cases):
        groups[canon(c.get("env", {}) if isinstance(c, dict) else {})].append(i)
    return groups


def run_check(pid, tier, seed=None, procs=None):
    t0 = time.time()
    seed = seed_from_env() if seed is None else seed
    mod = load_check(pid)
    modname = mod.__name__
    cases = list(mod.cases(tier, seed))
    if not cases:
        print(f"HARNESS-ERROR property={pid} no cases generated")
        return 2

    # determinism self-check: one case, two separate fresh processes, byte-identical observations
    probe_idx = getattr(mod, "SELFCHECK_INDEX", 0) % len(cases)
    probe = cases[probe_idx]
    penv = probe.get("env") if isinstance(probe, dict) else None
    a = run_fresh(modname, [probe], penv)[0]
    b = run_fresh(modname, [probe], penv)[0]
    if "harness_error" in a or canon(a) != canon(b):
        print(f"HARNESS-ERROR property={pid} determinism self-check failed on case {probe_idx}")
        print(canon(a)[:2000])
        print(canon(b)[:2000])
        return 2

    results = [None] * len(cases)
    for envkey, idxs in _group_cases(mod, cases).items():
        extra = json.loads(envkey) or None
        with Pool(modname, n=procs, extra_env=extra) as pool:
            res = pool.map([cases[i] for i in idxs])
        for i, r in zip(idxs, res):
            results[i] = r

    herr = [(i, r) for i, r in enumerate(results) if "harness_error" in r]
    if herr:
        i, r = herr[0]
        print(f"HARNESS-ERROR property={pid} {len(herr)} case(s) failed inside the harness; first: case {i}")
        print(canon(cases[i])[:1500])
        print(r["harness_error"])
        print(r.get("traceback", ""))
        if not any(r2.get("violations") for r2 in results if "harness_error" not in r2):
            return 2
        # other cases did find violations: report them (exit 1) rather than hiding them behind the harness error
        for i, r in herr:
            results[i] = {"violations": [], "cov": {"harness_errors": 1}, "outcome": "harness_error", "nontrivial": False}

    # cross-case (relational) oracles evaluated in the parent
    extra_cov = {}
    if hasattr(mod, "post"):
        post = mod.post(cases, results, tier, seed)
        for i, v in post.get("violations", []):
            results[i].setdefault("violations", []).append(v)
        extra_cov = post.get("cov", {})

    known = findings.load()
    cov = Counter()
    states, nontrivial_states, outcomes = set(), set(), set()
    transitions = 0
    extra_states = 0
    by_sig = defaultdict(list)
    notes = {}
    for i, r in enumerate(results):
        for k, v in r.get("cov", {}).items():
            cov[k] += v
        st = r.get("state") or sha(cases[i])
        states.add(st)
        if r.get("nontrivial", True):
            nontrivial_states.add(st)
        outcomes.add(r.get("outcome", ""))
        if r.get("note") is not None and os.environ.get("MC_VERBOSE"):
            key = str(r.get("outcome", ""))
            if key not in notes:
                notes[key] = (cases[i], r["note"])
        transitions += int(r.get("transitions", 1))
        extra_states += max(0, int(r.get("n_states", 1)) - 1)
        for v in r.get("violations", []):
            by_sig[v["sig"]].append((i, v))
    for k, v in extra_cov.items():
        cov[k] += v

    exit_code = 0
    known_matched = {}
    n_unknown = 0
    lines = []
    for sig in sorted(by_sig):
        hits = by_sig[sig]
        if (pid, sig) in known:
            known_matched[sig] = len(hits)
            lines.append(f"KNOWN-FINDING: property={pid} sig={sig} {known[(pid, sig)]} [{len(hits)} case(s)]")
            continue
        # confirm the first hit in a fresh worker before believing it
        i, v = hits[0]
        if not getattr(mod, "POST_ONLY_VIOLATIONS", False) and not v.get("from_post"):
            cenv = cases[i].get("env") if isinstance(cases[i], dict) else None
            again = run_fresh(modname, [cases[i]], cenv)[0]
            sigs_again = sorted(x["sig"] for x in again.get("violations", []))
            if sig not in sigs_again:
                print(f"HARNESS-ERROR property={pid} violation {sig} did not reproduce in a fresh worker (case {i})")
                print(canon(cases[i])[:1500])
                return 2
        n_unknown += len(hits)
        exit_code = 1
        path = write_replay(pid, cases[i], [x for _, x in hits if _ == i], tier, seed)
        lines.append(f"VIOLATION property={pid} replay={path}")
        lines.append(f"  sig={sig} cases={len(hits)} first: {v.get('msg', '')[:600]}")

    describe = getattr(mod, "describe", lambda c: c)
    step = max(1, len(cases) // 3)
    samples = [describe(cases[i]) for i in range(0, len(cases), step)][:3]
    level = getattr(mod, "LEVEL", "model_checking")
    coverage = {
        "evaluations": len(cases),
        "states": len(states) + extra_states,
        "transitions": transitions,
        "traces_validated_against_impl": transitions,
        "distinct_nontrivial": len(nontrivial_states),
        "distinct_outcomes": len(outcomes),
        "rule": getattr(mod, "RULE", ""),
        "samples": samples,
        "exhaustive": bool(getattr(mod, "EXHAUSTIVE", True)),
        "bounds": mod.bounds(tier) if hasattr(mod, "bounds") else {},
        "counters": dict(sorted(cov.items())),
        "known_findings_matched": known_matched,
        "violation_signatures": sorted(s for s in by_sig if (pid, s) not in known),
        "determinism_selfcheck": "one case run in two fresh processes, byte-identical",
    }
    if hasattr(mod, "CAP_NOTE"):
        coverage["cap"] = mod.CAP_NOTE
    evidence = {
        "property_id": pid,
        "tier": tier,
        "seed": seed,
        "level": level,
        "coverage": coverage,
        "assumptions": list(getattr(mod, "ASSUMPTIONS", [])),
        "wall_s": round(time.time() - t0, 2),
        "violations": n_unknown,
    }
    path = write_evidence(pid, evidence)
    for ln in lines:
        print(ln)
    for key, (c, note) in notes.items():
        print(f"NOTE outcome={key} case={canon(c)[:1200]} note={str(note)[:1500]}")
    print(
        f"property={pid} tier={tier} seed={seed} cases={len(cases)} states={len(states) + extra_states} "
        f"transitions={transitions} nontrivial={len(nontrivial_states)} outcomes={len(outcomes)} "
        f"violations={n_unknown} known={sum(known_matched.values())} wall={evidence['wall_s']}s evidence={path}"
    )
    # required non-vacuity counters (a check may demand that specific mechanisms were exercised)
    need = getattr(mod, "REQUIRED_COUNTERS", {})
    need = need.get(tier, need) if need and isinstance(next(iter(need.values())), dict) else need
    missing = [k for k, m in need.items() if cov.get(k, 0) < m]
    if missing and exit_code == 0:
        print(f"HARNESS-ERROR property={pid} vacuous exploration: counters below minimum: {missing}")
        return 2
    sys.stdout.flush()
    return exit_code


def replay(path):
    with open(path) as f:
        body = json.load(f)
    pid = body["property"]
    mod = load_check(pid)
    case = body["case"]
    cenv = case.get("env") if isinstance(case, dict) else None
    res = run_fresh(mod.__name__, [case], cenv)[0]
    if "harness_error" in res:
        print("HARNESS-ERROR", res["harness_error"])
        print(res.get("traceback", ""))
        return 2
    print(f"replay property={pid} case={canon(case)[:3000]}")
    vs = res.get("violations", [])
    known = findings.load()
    code = 0
    for v in vs:
        tag = "KNOWN-FINDING:" if (pid, v["sig"]) in known else "VIOLATION"
        if tag == "VIOLATION":
            code = 1
            print(f"VIOLATION property={pid} replay={path}")
        else:
            print(f"KNOWN-FINDING: property={pid} sig={v['sig']}")
        print(f"  sig={v['sig']} {v.get('msg', '')}")
    if not vs:
        print("no violation reproduced")
    return code
