#!/venv/bin/python
"""Run the repository's pinned suite and compare with /root/.vp/BASELINE.json (stable_pass must all pass)."""
import json, subprocess, sys, tempfile, os, xml.etree.ElementTree as ET
base = json.load(open("/root/.vp/BASELINE.json"))
fd, path = tempfile.mkstemp(suffix=".xml"); os.close(fd)
env = dict(os.environ); env.pop("ELEX_LIVE_MODEL_VERIF", None)
cmd = f"cd /repo && /venv/bin/python -m pytest -ra -q -p no:cacheprovider --timeout=900 --continue-on-collection-errors --junitxml={path}"
p = subprocess.run(cmd, shell=True, capture_output=True, text=True, env=env)
passed = set()
for tc in ET.parse(path).getroot().iter("testcase"):
    ok = not any(ch.tag in ("failure", "error", "skipped") for ch in tc)
    if ok:
        passed.add(f"{tc.get('classname')}::{tc.get('name')}")
os.unlink(path)
missing = [t for t in base["stable_pass"] if t not in passed]
print(p.stdout.strip().splitlines()[-1])
print(f"baseline stable_pass={len(base['stable_pass'])} passed_now={len(passed)} missing={missing}")
sys.exit(1 if missing else 0)
