#!/venv/bin/python
"""Write the task description for one detection-wave sub-agent per property: /tmp/agent_prompt<W>_<Cxx>.txt.

usage: gen_agent_prompts.py <wave-number> [Cxx ...]     (worktrees are expected at /tmp/w<W>_<Cxx>)
The agent gets the property text and the summaries of earlier seeded changes for that property (so that it looks for a
different mechanism) - nothing else from /verif."""
import glob
import json
import sys

wave = sys.argv[1]
only = set(sys.argv[2:])
props = [json.loads(l) for l in open("/verif/properties.jsonl")]

IDEAS = (
    "boundary values of numeric parameters, empty or single-element collections (one unit in a group, one group, no nonreporting units in a state, "
    "no unexpected units), ordering assumptions between two frames, dtype (int vs float vs string ids such as leading zeros), index alignment after "
    "filtering, in-place modification of an argument, interactions between two features (e.g. fixed effects AND features, district office AND zero policy, "
    "several estimands AND aggregates), off-by-one in slicing, default-argument handling, exception handling paths, state kept on a long-lived object "
    "between calls, a documented but rarely used model parameter, a helper in another module that this property silently relies on"
)

for p in props:
    pid = p["id"]
    if only and pid not in only:
        continue
    wt = f"/tmp/w{wave}_{pid}"
    earlier = []
    for mf in sorted(glob.glob(f"/verif/seeded/{pid}-*/meta.json")):
        m = json.load(open(mf))
        earlier.append(f"  - earlier change: {str(m.get('summary', ''))[:320]}\n    it needed: {str(m.get('needs', ''))[:240]}")
    mech = "\n".join(f"  - {m['name']} ({m['where']})" for m in p["anchors"].get("mechanism", []))
    text = f"""You are working on a scratch git worktree of the Python library washingtonpost/elex-live-model (a live election-night model: quantile-regression / conformal / bootstrap estimators of outstanding votes) located at {wt}. Work ONLY inside {wt}; never touch /repo or /verif, and do not read anything under /verif. There is no network.

How to run things: always `cd {wt}` and prefix Python with the worktree's source on PYTHONPATH, e.g.
  cd {wt} && PYTHONPATH={wt}/src /venv/bin/python -m pytest -q -p no:cacheprovider --timeout=900
(the package is installed editable from another directory, so WITHOUT that PYTHONPATH you would be testing the wrong copy). Outside pytest, importing elexmodel needs these environment variables: APP_ENV=local DATA_ENV=dev MODEL_S3_BUCKET=x MODEL_S3_PATH_ROOT=y. On the unchanged tree exactly two tests fail (tests/handlers/test_live_data.py::test_sample_overweight and tests/utils/test_file_utils.py::test_get_directory_path); ignore those two, all others pass (about 30 s, possibly slower: the machine is busy; tests/handlers/test_combined_data.py::test_get_unexpected_units_county is known to fail about one run in ten for reasons unrelated to any change - rerun if you see it).

PROPERTY {pid} - {p['title']}
Statement: {p['statement']}
Holds for: {p['quantifier']['text']}
What in the code is meant to make it hold:
{mech}
Files: {', '.join(p['anchors'].get('files', []))}

NOTE: {len(earlier)} earlier attempts at this task already produced the changes below; yours must be of a DIFFERENT kind again (another mechanism, another function or file, another triggering condition). Look at code paths none of them touched. Ideas: {IDEAS}.
{chr(10).join(earlier)}

YOUR TASK: introduce ONE realistic change to the library source (under {wt}/src/) that BREAKS this property while the package still imports and the existing test-suite still passes (apart from the two known failures). It must be the kind of plausible slip a maintainer could make in a refactor or 'small improvement' (an off-by-one, a changed comparison, a join/merge/sort detail, a cached or shared object, a reordered statement, a wrong column or index, a dropped guard...), 1-15 changed lines. IMPORTANT: the breakage must need something SPECIFIC to manifest - a particular input shape (e.g. a group that exists only among certain units, ties, a value exactly at a limit, keys of different lengths), a particular multi-step sequence of calls, a fault at a particular point, an unusual but legitimate configuration, or two cooperating sites that each look fine alone - NOT something that any ordinary run would expose at once, and not a change that simply deletes the feature. Be creative and do not just flip the most obvious operator if ordinary use would show it immediately.

DELIVERABLES (all inside {wt}):
 1. leave your change applied in the worktree and also write it to {wt}/patch.diff (`git diff > patch.diff`; the diff must contain only files under src/).
 2. {wt}/demo.py : a standalone program, run as `cd {wt} && APP_ENV=local DATA_ENV=dev MODEL_S3_BUCKET=x MODEL_S3_PATH_ROOT=y PYTHONPATH={wt}/src /venv/bin/python demo.py`, that builds its own inputs (it may read the fixtures under tests/fixtures), exercises the library through its normal API, and checks the property on that input: it must print PASS and exit 0 on the UNCHANGED tree and print FAIL (with a one-line explanation) and exit 1 on your CHANGED tree. Make it deterministic.
 3. {wt}/meta.json : {{"property": "{pid}", "summary": "<what you changed>", "needs": "<what specific input / sequence / fault is needed for the breakage to show>", "files": ["<changed files>"]}}
VERIFY YOURSELF before finishing: (a) full test-suite with the change applied: only the two known failures; (b) demo.py with the change: FAIL / exit 1; (c) revert the change with `git apply -R patch.diff` (do NOT use git stash: the stash is shared with other worktrees), run demo.py: PASS / exit 0; then `git apply patch.diff` so the change is applied again. Do not commit anything. Finish with a short report: the diff, what it needs to manifest, and the three verification results."""
    open(f"/tmp/agent_prompt{wave}_{pid}.txt", "w").write(text)
    print(f"/tmp/agent_prompt{wave}_{pid}.txt", len(earlier), "earlier changes")
