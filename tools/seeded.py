#!/venv/bin/python
"""Confirm a seeded change and run checks against it.

  tools/seeded.py confirm <src_dir> <seed_id>      # src_dir holds patch.diff, demo.py, meta.json
        -> scratch worktree of /repo HEAD: suite with patch (baseline must pass), demo FAIL with / PASS without;
           on success copies the three files to /verif/seeded/<seed_id>/ and records what was run
  tools/seeded.py run <seed_id> [C01 C02 ...|all]   # git apply in /repo, quick checks, git checkout -- .
"""
import json, os, shutil, subprocess, sys, tempfile, time, xml.etree.ElementTree as ET

VERIF = "/verif"
ENVV = dict(os.environ, APP_ENV="local", DATA_ENV="dev", MODEL_S3_BUCKET="x", MODEL_S3_PATH_ROOT="y")
ENVV.pop("ELEX_LIVE_MODEL_VERIF", None)


def sh(cmd, cwd=None, env=None, timeout=3600):
    p = subprocess.run(cmd, shell=True, cwd=cwd, env=env, capture_output=True, text=True, timeout=timeout)
    return p.returncode, p.stdout + p.stderr


def suite(wt):
    base = json.load(open("/root/.vp/BASELINE.json"))
    fd, path = tempfile.mkstemp(suffix=".xml"); os.close(fd)
    env = dict(ENVV, PYTHONPATH=f"{wt}/src")
    rc, out = sh(f"/venv/bin/python -m pytest -ra -q -p no:cacheprovider --timeout=900 --continue-on-collection-errors --junitxml={path}", cwd=wt, env=env)
    passed = set()
    try:
        for tc in ET.parse(path).getroot().iter("testcase"):
            if not any(ch.tag in ("failure", "error", "skipped") for ch in tc):
                passed.add(f"{tc.get('classname')}::{tc.get('name')}")
    finally:
        os.unlink(path)
    missing = [t for t in base["stable_pass"] if t not in passed]
    return missing, out.strip().splitlines()[-1] if out.strip() else ""


def demo(wt, demo_path):
    env = dict(ENVV, PYTHONPATH=f"{wt}/src")
    rc, out = sh(f"/venv/bin/python {demo_path}", cwd=wt, env=env, timeout=1800)
    return rc, out.strip().splitlines()[-1][:300] if out.strip() else ""


def confirm(src, sid):
    wt = tempfile.mkdtemp(prefix="mc_seed_")
    os.rmdir(wt)
    rc, out = sh(f"git -C /repo worktree add --detach {wt} HEAD")
    assert rc == 0, out
    record = {"confirmed_at": time.strftime("%Y-%m-%d %H:%M:%S"), "repo_head": sh("git -C /repo rev-parse --short HEAD")[1].strip()}
    ok = False
    try:
        patch = os.path.join(src, "patch.diff")
        shutil.copy(os.path.join(src, "demo.py"), os.path.join(wt, "demo.py"))
        rc0, last0 = demo(wt, "demo.py")
        record["demo_without_change"] = {"exit": rc0, "last_line": last0}
        rc, out = sh(f"git apply --whitespace=nowarn {patch}", cwd=wt)
        if rc != 0:
            record["apply_error"] = out[-500:]
            print("patch does not apply:", out[-500:]); return False
        files = sh("git diff --name-only", cwd=wt)[1].split()
        record["changed_files"] = files
        if any(not f.startswith("src/") for f in files):
            print("patch touches files outside src/:", files); return False
        missing, last = suite(wt)
        if missing == ["tests.handlers.test_combined_data::test_get_unexpected_units_county"]:
            missing, last = suite(wt)  # known to fail about one run in ten on the unchanged tree (unseeded sample)
        record["suite_with_change"] = {"summary": last, "baseline_tests_missing": missing}
        rc1, last1 = demo(wt, "demo.py")
        record["demo_with_change"] = {"exit": rc1, "last_line": last1}
        ok = (rc0 == 0) and (rc1 != 0) and not missing
        print(json.dumps(record, indent=1))
    finally:
        sh(f"git -C /repo worktree remove --force {wt}")
        shutil.rmtree(wt, ignore_errors=True)
    if ok:
        dst = os.path.join(VERIF, "seeded", sid)
        os.makedirs(dst, exist_ok=True)
        shutil.copy(patch, os.path.join(dst, "patch.diff"))
        shutil.copy(os.path.join(src, "demo.py"), os.path.join(dst, "demo.py"))
        meta = {}
        try:
            meta = json.load(open(os.path.join(src, "meta.json")))
        except Exception as e:
            meta = {"note": f"agent meta.json unreadable: {e}"}
        meta["confirmation"] = record
        meta.setdefault("checks", {})
        json.dump(meta, open(os.path.join(dst, "meta.json"), "w"), indent=1)
        print(f"CONFIRMED -> {dst}")
    else:
        print("NOT CONFIRMED")
    return ok


def run(sid, checks):
    dst = os.path.join(VERIF, "seeded", sid)
    meta = json.load(open(os.path.join(dst, "meta.json")))
    if checks == ["all"]:
        checks = [c["property_id"] for c in json.load(open(os.path.join(VERIF, "MANIFEST.json")))["checks"]]
    rc, out = sh("git -C /repo status --porcelain")
    assert out.strip() == "", "/repo is not clean: " + out
    head = sh("git -C /repo rev-parse --short HEAD")[1].strip()
    rc, out = sh(f"git -C /repo apply --whitespace=nowarn {dst}/patch.diff")
    if rc != 0:
        # the change was written against an earlier /repo HEAD and the lines it edits have been repaired since
        meta.setdefault("checks", {})
        meta["does_not_apply_at"] = head
        json.dump(meta, open(os.path.join(dst, "meta.json"), "w"), indent=1)
        print(f"{sid}: patch does not apply at {head}: {out.strip()[:200]}")
        return
    meta.pop("does_not_apply_at", None)
    try:
        for c in checks:
            t0 = time.time()
            rc, out = sh(f"/venv/bin/python -m mc check {c} --tier quick", cwd=VERIF)
            sigs = [l.strip() for l in out.splitlines() if l.strip().startswith("sig=")]
            meta["checks"][c] = {"exit": rc, "signatures": [s[:400] for s in sigs[:6]], "wall_s": round(time.time() - t0, 1), "ran_at_repo_head": head}
            print(f"{sid} {c}: exit={rc} " + " | ".join(s[:200] for s in sigs[:3]))
    finally:
        sh("git -C /repo checkout -- .")
    json.dump(meta, open(os.path.join(dst, "meta.json"), "w"), indent=1)


if __name__ == "__main__":
    if sys.argv[1] == "confirm":
        sys.exit(0 if confirm(sys.argv[2], sys.argv[3]) else 1)
    elif sys.argv[1] == "run":
        run(sys.argv[2], sys.argv[3:] or ["all"])
