#!/venv/bin/python
"""Print the detection record (markdown) from /verif/seeded/*/meta.json."""
import glob, json, os
rows = []
for d in sorted(glob.glob("/verif/seeded/*/")):
    sid = os.path.basename(d.rstrip("/"))
    m = json.load(open(d + "meta.json"))
    if m.get("superseded"):
        rows.append(f"| {sid} | {m.get('property','')} | {m.get('summary','')[:140]} | {m.get('needs','')[:140]} | superseded (see meta.json) |")
        continue
    res = []
    for c, r in sorted(m.get("checks", {}).items()):
        sig = (r["signatures"][0].split(" cases=")[0].replace("sig=", "") if r.get("signatures") else "")
        res.append(f"{c}: {'caught (' + sig + ')' if r['exit'] == 1 else ('silent' if r['exit'] == 0 else 'exit ' + str(r['exit']))}")
    rows.append(f"| {sid} | {m.get('property','')} | {m.get('summary','').replace('|','/')[:160]} | {m.get('needs','').replace('|','/')[:160]} | {'; '.join(res)} |")
print("| seeded change | property | what was changed | what it needs to manifest | checks run (quick tier, patch applied to /repo) |")
print("|---|---|---|---|---|")
print("\n".join(rows))
