#!/venv/bin/python
"""Print the detection record (markdown) from /verif/seeded/*/meta.json."""
import glob, json, os
rows = []
for d in sorted(glob.glob("/verif/seeded/*/")):
    sid = os.path.basename(d.rstrip("/"))
    m = json.load(open(d + "meta.json"))
    if m.get("superseded"):
        rows.append(f"| {sid} | {m.get('property','')} | {m.get('summary','')[:140]} | {m.get('needs','')[:140]} | superseded (see meta.json) |")
        continue
    res = []
    if m.get("does_not_apply_at"):
        res.append(f"patch no longer applies at /repo {m['does_not_apply_at']} (the lines it edits were repaired since); earlier result kept")
    for c, r in sorted(m.get("checks", {}).items()):
        sig = (r["signatures"][0].split(" cases=")[0].replace("sig=", "") if r.get("signatures") else "")
        res.append(f"{c}: {'caught (' + sig + ')' if r['exit'] == 1 else ('silent' if r['exit'] == 0 else 'exit ' + str(r['exit']))}")
    rows.append(f"| {sid} | {m.get('property','')} | {m.get('summary','').replace('|','/')[:160]} | {m.get('needs','').replace('|','/')[:160]} | {'; '.join(res)} |")
n = len(rows)
caught_target = sum(1 for d in glob.glob("/verif/seeded/*/") for m in [json.load(open(d + "meta.json"))] if not m.get("superseded") and m.get("checks", {}).get(os.path.basename(d.rstrip("/")).split("-")[0], {}).get("exit") == 1)
caught_any = sum(1 for d in glob.glob("/verif/seeded/*/") for m in [json.load(open(d + "meta.json"))] if not m.get("superseded") and any(r.get("exit") == 1 for r in m.get("checks", {}).values()))
print(f"{n} stored changes; reported by the check of the targeted property: {caught_target}; reported by at least one check: {caught_any}.\n")
print("| seeded change | property | what was changed | what it needs to manifest | checks run (quick tier, patch applied to /repo) |")
print("|---|---|---|---|---|")
print("\n".join(rows))
