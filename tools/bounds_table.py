#!/venv/bin/python
"""Print the markdown table of DESIGN.md 10.3 from run records: tools/bounds_table.py <quick sweep log> <thorough log>
(each line of the logs carries 'property=Cxx tier=... cases=... states=... transitions=... wall=...s')."""
import re
import sys

rows = {}
for tier, path in (("quick", sys.argv[1]), ("thorough", sys.argv[2])):
    for line in open(path):
        m = re.search(r"property=(C\d\d) tier=(\w+) seed=\d+ cases=(\d+) states=(\d+) transitions=(\d+) nontrivial=(\d+) outcomes=(\d+) violations=(\d+) known=\d+ wall=([\d.]+)s", line)
        if m and m.group(2) == tier:
            rows.setdefault(m.group(1), {})[tier] = m.groups()[2:]
print("| id | quick: cases / states / executions / distinct outcomes / wall | thorough: cases / states / executions / distinct outcomes / wall |")
print("|---|---|---|")
for pid in sorted(rows):
    cells = []
    for tier in ("quick", "thorough"):
        r = rows[pid].get(tier)
        cells.append("-" if not r else f"{int(r[0]):,} / {int(r[1]):,} / {int(r[2]):,} / {int(r[4]):,} / {float(r[6]):.0f} s")
    print(f"| {pid} | {cells[0]} | {cells[1]} |")
