#!/bin/bash
# quick trial of a seeded change against checks, in a scratch worktree (never touches /repo): trydbg.sh <seed-id> C01 C02 ...
sid=$1; shift
D=${DBG_DIR:-/tmp/dbg}
[ -d $D ] || git -C /repo worktree add --detach $D HEAD -q
git -C $D checkout -q -- . ; git -C $D checkout -q --detach $(git -C /repo rev-parse HEAD) 2>/dev/null
git -C $D apply --whitespace=nowarn /verif/seeded/$sid/patch.diff || exit 3
for c in "$@"; do
  out=$(cd /verif && MC_REPO_SRC=$D/src /venv/bin/python -m mc check $c --tier quick 2>&1); rc=$?
  echo "$sid $c exit=$rc $(echo "$out" | grep -E '^  sig=' | head -3 | cut -c1-230 | tr '\n' '|')"
done
git -C $D checkout -q -- .
