#!/bin/bash
# quick trial of a seeded change against checks, in a scratch worktree (never touches /repo): trydbg.sh <seed-id> C01 C02 ...
sid=$1; shift
[ -d /tmp/dbg ] || git -C /repo worktree add --detach /tmp/dbg HEAD -q
git -C /tmp/dbg checkout -q -- . ; git -C /tmp/dbg checkout -q --detach $(git -C /repo rev-parse HEAD) 2>/dev/null
git -C /tmp/dbg apply --whitespace=nowarn /verif/seeded/$sid/patch.diff || exit 3
for c in "$@"; do
  out=$(cd /verif && MC_REPO_SRC=/tmp/dbg/src /venv/bin/python -m mc check $c --tier quick 2>&1); rc=$?
  echo "$sid $c exit=$rc $(echo "$out" | grep -E '^  sig=' | head -3 | cut -c1-230 | tr '\n' '|')"
done
git -C /tmp/dbg checkout -q -- .
