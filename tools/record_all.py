#!/venv/bin/python
"""Re-run every stored seeded change against the final checks (serially, on /repo itself: apply, run, revert).

For each /verif/seeded/<id>/ the checks that were run against it before are run again (at least the check of the targeted
property), plus the neighbours named in EXTRA.  Results go to each meta.json; tools/detection_table.py renders them."""
import glob
import json
import os
import subprocess
import sys
import time

EXTRA = {"C05-e": ["C12"], "C01-f": ["C12"], "C02-f": ["C01"], "C04-f": ["C09", "C05"], "C04-g": ["C13"], "C13-f": ["C20"], "C15-e": ["C13"]}
only = set(sys.argv[1:])
skip = set(os.environ.get("SKIP", "").split())
t00 = time.time()
for d in sorted(glob.glob("/verif/seeded/C*")):
    sid = os.path.basename(d)
    if (only and sid not in only and sid.split("-")[1] not in only) or sid in skip:
        continue
    meta = json.load(open(os.path.join(d, "meta.json")))
    if meta.get("superseded"):
        print(sid, "superseded - skipped", flush=True)
        continue
    checks = list(dict.fromkeys([sid.split("-")[0]] + [c for c in meta.get("checks", {})] + EXTRA.get(sid, [])))
    t0 = time.time()
    p = subprocess.run(["/venv/bin/python", "/verif/tools/seeded.py", "run", sid] + checks, capture_output=True, text=True, cwd="/verif")
    out = (p.stdout + p.stderr).strip().splitlines()
    for l in out:
        print("   ", l[:260], flush=True)
    print(f"{sid} done in {time.time() - t0:.0f}s (total {time.time() - t00:.0f}s) rc={p.returncode}", flush=True)
    st = subprocess.run("git -C /repo status --porcelain", shell=True, capture_output=True, text=True).stdout.strip()
    if st:
        print("!! /repo not clean after", sid, st, flush=True)
        subprocess.run("git -C /repo checkout -- .", shell=True)
