#!/bin/bash
# process finished sub-agent worktrees of a detection wave: confirm each change, then try the target check on it in the
# scratch worktree (never touches /repo).  usage: wave.sh <wave-number> <suffix-letter> C01 C02 ...
w=$1; suf=$2; shift 2
for c in "$@"; do
  r=$(/venv/bin/python /verif/tools/seeded.py confirm /tmp/w${w}_$c $c-$suf 2>&1 | tail -1)
  echo "$c-$suf confirm: $r"
  case "$r" in CONFIRMED*) /verif/tools/trydbg.sh $c-$suf $c ;; esac
done
