#!/bin/bash
# run every claimed check's quick tier for the given seeds (default 0..4); print the summary line of each
cd /verif
seeds="${@:-0 1 2 3 4}"
for s in $seeds; do
  for c in $(/venv/bin/python -c "import json;print(' '.join(x['property_id'] for x in json.load(open('MANIFEST.json'))['checks']))"); do
    out=$(VERIF_SEED=$s /venv/bin/python -m mc check $c --tier quick 2>&1); rc=$?
    echo "seed=$s $c rc=$rc $(echo "$out" | grep -E '^(VIOLATION|HARNESS|KNOWN)' | head -3 | tr '\n' ' ') $(echo "$out" | tail -1 | cut -c1-160)"
  done
done
