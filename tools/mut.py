#!/venv/bin/python
"""Try a one-line mutant: tools/mut.py <repo-relative file> <old> <new> [--suite] -- C01 C02 ...
Applies the replacement in /repo, runs the quick checks, reverts (git checkout) whatever happens."""
import subprocess, sys
args = sys.argv[1:]
sep = args.index("--")
f, old, new = args[0], args[1], args[2]
suite = "--suite" in args[3:sep]
checks = args[sep + 1 :]
path = "/repo/" + f
s = open(path).read()
assert s.count(old) >= 1, "pattern not found"
open(path, "w").write(s.replace(old, new, 1))
try:
    if suite:
        r = subprocess.run(["/venv/bin/python", "/verif/tools/run_suite.py"], capture_output=True, text=True)
        print("SUITE:", r.stdout.strip().splitlines()[-1])
    for c in checks:
        r = subprocess.run(["/venv/bin/python", "-m", "mc", "check", c, "--tier", "quick"], cwd="/verif", capture_output=True, text=True)
        lines = [l for l in r.stdout.splitlines() if l.startswith(("VIOLATION", "  sig=", "HARNESS", "KNOWN"))]
        print(f"{c}: exit={r.returncode}", "; ".join(l[:260] for l in lines[:6]))
finally:
    subprocess.run(["git", "-C", "/repo", "checkout", "--", f])
