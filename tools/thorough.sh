#!/bin/bash
# run every claimed check's thorough tier once (seed from $VERIF_SEED, default 0); print summary line and wall time of each
cd /verif
for c in ${@:-$(/venv/bin/python -c "import json;print(' '.join(x['property_id'] for x in json.load(open('MANIFEST.json'))['checks']))")}; do
  t0=$(date +%s)
  out=$(/venv/bin/python -m mc check $c --tier thorough 2>&1); rc=$?
  t1=$(date +%s)
  echo "$c rc=$rc secs=$((t1-t0)) $(echo "$out" | grep -E '^(VIOLATION|HARNESS|KNOWN)' | head -3 | tr '\n' ' ') $(echo "$out" | tail -1 | cut -c1-200)"
done
