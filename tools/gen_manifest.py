#!/venv/bin/python
"""Regenerate /verif/MANIFEST.json from the check modules that exist (run from /verif)."""
import importlib
import json
import os
import sys

sys.path.insert(0, os.path.dirname(os.path.dirname(os.path.abspath(__file__))))

ALL = [f"C{i:02d}" for i in range(1, 21)]
PY = "/venv/bin/python"

ENGINES = [
    {"name": "E-SCEN", "path": "mc/scen.py", "kind_free_text": "scenario explorer: background + k probe units over (status x location) x run configuration, one real get_estimates per scenario"},
    {"name": "E-SEAM", "path": "mc/checks", "kind_free_text": "narrow-seam explorer: one real method, its state fields/arguments filled with every tuple of a value alphabet"},
    {"name": "E-HIST", "path": "mc/checks/c12.py", "kind_free_text": "explicit-state breadth-first search over call histories on real client/model objects, states rebuilt by replay, canonical fingerprints"},
    {"name": "E-FAULT", "path": "mc/fakes.py", "kind_free_text": "environment/fault enumerator: scripted S3 listing/downloads, recording object store, solver seam failing at position k"},
]


def main():
    checks = []
    na = []
    serves = {e["name"]: [] for e in ENGINES}
    for pid in ALL:
        try:
            mod = importlib.import_module(f"mc.checks.{pid.lower()}")
        except ModuleNotFoundError:
            na.append({"property_id": pid, "reason": "check not built yet in this round (planned: bounded exhaustive exploration, see DESIGN.md section 4)"})
            continue
        eng = getattr(mod, "ENGINE", "E-SCEN")
        for e in eng.split("+"):
            serves.setdefault(e.strip(), []).append(pid)
        checks.append(
            {
                "property_id": pid,
                "quick_cmd": f"{PY} -m mc check {pid} --tier quick",
                "thorough_cmd": f"{PY} -m mc check {pid} --tier thorough",
                "evidence_file": f"/verif/evidence/{pid}.json",
                "replay_cmd_template": f"{PY} -m mc replay {{path}}",
                "engine": eng,
                "level_claimed": {
                    "category": getattr(mod, "LEVEL", "model_checking"),
                    "text": getattr(mod, "LEVEL_TEXT", mod.RULE),
                    "design_ref": f"DESIGN.md section 4, {pid}",
                },
                "level_note": getattr(mod, "LEVEL_NOTE", "; ".join(getattr(mod, "ASSUMPTIONS", []))),
                "technique": getattr(
                    mod,
                    "TECHNIQUE",
                    "bounded exhaustive enumeration of inputs/configurations executed on the real implementation, reference-model oracle (stateless explicit exploration)",
                ),
            }
        )
    engines = []
    for e in ENGINES:
        e = dict(e)
        e["serves_properties"] = serves.get(e["name"], [])
        engines.append(e)
    manifest = {
        "version": 1,
        "setup_cmd": f"{PY} -m mc selftest",
        "hooks": {
            "guard": "ELEX_LIVE_MODEL_VERIF",
            "enable": "no source hooks are needed: every seam is installed by rebinding module attributes inside the harness's worker processes (mc/fakes.py); the variable is exported by the harness for completeness",
            "baseline_off_cmd": "cd /repo && /venv/bin/python -m pytest -ra -q -p no:cacheprovider --timeout=900 --continue-on-collection-errors",
            "source_commits": [],
            "add_only": True,
        },
        "engines": engines,
        "checks": checks,
        "not_applicable": na,
        "notes": "All checks run with /venv/bin/python from /verif and import elexmodel from /repo/src (the working tree). KNOWN_FINDINGS.txt lists genuine defects (known:/fixed:). Evidence is rewritten on every run.",
    }
    with open("MANIFEST.json", "w") as f:
        json.dump(manifest, f, indent=1)
        f.write("\n")
    import jsonschema

    jsonschema.validate(manifest, json.load(open("/root/.vp/MANIFEST.schema.json")))
    print(f"MANIFEST.json: {len(checks)} checks, {len(na)} not yet claimed")


if __name__ == "__main__":
    main()
